//! C01 (lossless canonical round trips), C02 (classification follows the MIDI 1.0 table),
//! C03 (observational equivalence of implementations).
use crate::engine::*;
use crate::impls::*;
use crate::refmodel::*;
use crate::{ensure, ensure_eq};
use helgoboss_midi::{
    FuzzyMessageSuperType, MessageMainCategory, MessageSuperType, RawShortMessage, ShortMessage,
    ShortMessageFactory, ShortMessageType, StructuredShortMessage, TimeCodeQuarterFrame, U7,
};
use serde_json::{json, Value};
use std::convert::TryFrom;
use std::fmt::Debug;

pub trait Impl: ShortMessage + ShortMessageFactory + Debug + Clone {
    const IDX: u8;
}
impl Impl for RawShortMessage {
    const IDX: u8 = RAW;
}
impl Impl for StructuredShortMessage {
    const IDX: u8 = STRUCTURED;
}
impl Impl for Foreign {
    const IDX: u8 = FOREIGN;
}
impl Impl for ForeignTuple {
    const IDX: u8 = FOREIGN_TUPLE;
}

/// lazily formatted pieces of failure signatures (no allocation unless a check fails)
pub struct Hex(pub u8);
impl std::fmt::Display for Hex {
    fn fmt(&self, f: &mut std::fmt::Formatter) -> std::fmt::Result {
        write!(f, "{:#04x}", self.0)
    }
}
struct Boundary(u8, u8);
impl std::fmt::Display for Boundary {
    fn fmt(&self, f: &mut std::fmt::Formatter) -> std::fmt::Result {
        if self.0 == 0xB0 && (119..=121).contains(&self.1) {
            write!(f, "/cc{}", self.1)
        } else {
            Ok(())
        }
    }
}
pub struct Pre3<'a>(pub &'a str, pub &'a str, pub Option<u8>);
impl<'a> std::fmt::Display for Pre3<'a> {
    fn fmt(&self, f: &mut std::fmt::Formatter) -> std::fmt::Result {
        write!(f, "{}/{}", self.0, self.1)?;
        if let Some(b) = self.2 {
            write!(f, "/{:#04x}", b)?;
        }
        Ok(())
    }
}

pub fn triple_simplicity(s: u8, d1: u8, d2: u8) -> u128 {
    let nz = (d1 != 0) as u128 + (d2 != 0) as u128 + ((s & 0x0F) != 0 && s < 0xF0) as u128;
    (nz << 32) | ((s as u128) << 16) | ((d1 as u128) << 8) | d2 as u128
}

pub fn triple_json(s: u8, d1: u8, d2: u8) -> Value {
    json!({"status": s, "data1": d1, "data2": d2})
}

pub fn triple_from(v: &Value) -> Option<(u8, u8, u8)> {
    let s = json_u8(&v["status"])?;
    let d1 = json_u8(&v["data1"])?;
    let d2 = json_u8(&v["data2"])?;
    if d1 > 127 || d2 > 127 {
        return None;
    }
    Some((s, d1, d2))
}

/// Everything a ShortMessage can be asked, in plain values.
#[derive(Clone, PartialEq, Debug)]
pub struct Obs {
    pub status: u8,
    pub d1: u8,
    pub d2: u8,
    pub bytes: (u8, u8, u8),
    pub ty: ShortMessageType,
    pub sup: MessageSuperType,
    pub main: MessageMainCategory,
    pub is_note_on: bool,
    pub is_note_off: bool,
    pub is_note: bool,
    pub channel: Option<u8>,
    pub key: Option<u8>,
    pub velocity: Option<u8>,
    pub controller: Option<u8>,
    pub control_value: Option<u8>,
    pub program: Option<u8>,
    pub pressure: Option<u8>,
    pub bend: Option<u16>,
    pub structured: StructuredShortMessage,
}

pub fn observe<M: ShortMessage>(m: &M) -> Obs {
    let b = api(|| m.to_bytes());
    Obs {
        status: api(|| m.status_byte()),
        d1: api(|| m.data_byte_1()).get(),
        d2: api(|| m.data_byte_2()).get(),
        bytes: (b.0, b.1.get(), b.2.get()),
        ty: api(|| m.r#type()),
        sup: api(|| m.super_type()),
        main: api(|| m.main_category()),
        is_note_on: api(|| m.is_note_on()),
        is_note_off: api(|| m.is_note_off()),
        is_note: api(|| m.is_note()),
        channel: api(|| m.channel()).map(|c| c.get()),
        key: api(|| m.key_number()).map(|c| c.get()),
        velocity: api(|| m.velocity()).map(|c| c.get()),
        controller: api(|| m.controller_number()).map(|c| c.get()),
        control_value: api(|| m.control_value()).map(|c| c.get()),
        program: api(|| m.program_number()).map(|c| c.get()),
        pressure: api(|| m.pressure_amount()).map(|c| c.get()),
        bend: api(|| m.pitch_bend_value()).map(|c| c.get()),
        structured: api(|| m.to_structured()),
    }
}

pub fn in_range_obs(o: &Obs) -> Result<(), Fail> {
    ensure!(o.d1 < 128 && o.d2 < 128 && o.bytes.1 < 128 && o.bytes.2 < 128, "range", "data byte out of range: {:?}", o);
    ensure!(o.channel.map_or(true, |c| c < 16), "range", "channel out of range: {:?}", o);
    ensure!(o.bend.map_or(true, |c| c < 16384), "range", "bend out of range: {:?}", o);
    for v in [o.key, o.velocity, o.controller, o.control_value, o.program, o.pressure] {
        ensure!(v.map_or(true, |c| c < 128), "range", "7-bit field out of range: {:?}", o);
    }
    Ok(())
}

/// Checks every observable of `m` against the reference decoding of the triple it is supposed to
/// carry (`structured`: byte observables are compared with the canonical triple).
pub fn check_msg_is<M: ShortMessage>(m: &M, s: u8, d1: u8, d2: u8, structured: bool, pre: &dyn std::fmt::Display) -> Result<(), Fail> {
    let o = observe(m);
    in_range_obs(&o)?;
    let want = if structured { ref_canon(s, d1, d2) } else { (s, d1, d2) };
    ensure_eq!(o.bytes, want, format!("{}/bytes", pre));
    ensure_eq!((o.status, o.d1, o.d2), want, format!("{}/byte_getters", pre));
    let d = ref_decode(want.0, want.1, want.2);
    ensure_eq!(Some(o.ty), ref_type(d.type_byte), format!("{}/type", pre));
    ensure_eq!(o.channel, d.channel, format!("{}/channel", pre));
    ensure_eq!(o.key, d.key, format!("{}/key_number", pre));
    ensure_eq!(o.velocity, d.velocity, format!("{}/velocity", pre));
    ensure_eq!(o.controller, d.controller, format!("{}/controller_number", pre));
    ensure_eq!(o.control_value, d.control_value, format!("{}/control_value", pre));
    ensure_eq!(o.program, d.program, format!("{}/program_number", pre));
    ensure_eq!(o.pressure, d.pressure, format!("{}/pressure_amount", pre));
    ensure_eq!(o.bend, d.bend, format!("{}/pitch_bend_value", pre));
    ensure_eq!(o.structured, ref_structured(want.0, want.1, want.2), format!("{}/to_structured", pre));
    Ok(())
}

#[macro_export]
macro_rules! for_impl {
    ($idx:expr, $f:ident ( $($arg:expr),* )) => {
        match $idx {
            0 => $f::<RawShortMessage>($($arg),*),
            1 => $f::<StructuredShortMessage>($($arg),*),
            2 => $f::<Foreign>($($arg),*),
            _ => $f::<ForeignTuple>($($arg),*),
        }
    };
}

macro_rules! for_impl_pair {
    ($a:expr, $b:expr, $f:ident ( $($arg:expr),* )) => {
        match ($a, $b) {
            (0, 0) => $f::<RawShortMessage, RawShortMessage>($($arg),*),
            (0, 1) => $f::<RawShortMessage, StructuredShortMessage>($($arg),*),
            (0, 2) => $f::<RawShortMessage, Foreign>($($arg),*),
            (0, _) => $f::<RawShortMessage, ForeignTuple>($($arg),*),
            (1, 0) => $f::<StructuredShortMessage, RawShortMessage>($($arg),*),
            (1, 1) => $f::<StructuredShortMessage, StructuredShortMessage>($($arg),*),
            (1, 2) => $f::<StructuredShortMessage, Foreign>($($arg),*),
            (1, _) => $f::<StructuredShortMessage, ForeignTuple>($($arg),*),
            (2, 0) => $f::<Foreign, RawShortMessage>($($arg),*),
            (2, 1) => $f::<Foreign, StructuredShortMessage>($($arg),*),
            (2, 2) => $f::<Foreign, Foreign>($($arg),*),
            (2, _) => $f::<Foreign, ForeignTuple>($($arg),*),
            (_, 0) => $f::<ForeignTuple, RawShortMessage>($($arg),*),
            (_, 1) => $f::<ForeignTuple, StructuredShortMessage>($($arg),*),
            (_, 2) => $f::<ForeignTuple, Foreign>($($arg),*),
            (_, _) => $f::<ForeignTuple, ForeignTuple>($($arg),*),
        }
    };
}


/// The same observation as `observe`, but written against the *concrete* type with method-call
/// syntax, so that inherent methods which shadow the trait methods (e.g. `const fn` accessors added
/// to RawShortMessage) are what gets called - they must agree with the trait.
macro_rules! concrete_observe {
    ($name:ident, $t:ty) => {
        pub fn $name(m: &$t) -> Obs {
            let b = api(|| m.to_bytes());
            Obs {
                status: api(|| m.status_byte()),
                d1: api(|| m.data_byte_1()).get(),
                d2: api(|| m.data_byte_2()).get(),
                bytes: (b.0, b.1.get(), b.2.get()),
                ty: api(|| m.r#type()),
                sup: api(|| m.super_type()),
                main: api(|| m.main_category()),
                is_note_on: api(|| m.is_note_on()),
                is_note_off: api(|| m.is_note_off()),
                is_note: api(|| m.is_note()),
                channel: api(|| m.channel()).map(|c| c.get()),
                key: api(|| m.key_number()).map(|c| c.get()),
                velocity: api(|| m.velocity()).map(|c| c.get()),
                controller: api(|| m.controller_number()).map(|c| c.get()),
                control_value: api(|| m.control_value()).map(|c| c.get()),
                program: api(|| m.program_number()).map(|c| c.get()),
                pressure: api(|| m.pressure_amount()).map(|c| c.get()),
                bend: api(|| m.pitch_bend_value()).map(|c| c.get()),
                structured: api(|| m.to_structured()),
            }
        }
    };
}
concrete_observe!(observe_concrete_raw, RawShortMessage);
concrete_observe!(observe_concrete_structured, StructuredShortMessage);

/// concrete paths + implementors the harness does not know by name (C01-C03)
fn c_concrete_and_probes(s: u8, d1: u8, d2: u8) -> CheckResult {
    use crate::impls::{probe, ForeignMasked, ProbeFactoryNo, ProbeFactoryYes, ProbeMessageNo, ProbeMessageYes};
    let bytes = (s, h_u7(d1), h_u7(d2));
    // a factory that relies on the documented precondition of from_bytes_unchecked
    let fm = api(|| ForeignMasked::from_bytes(bytes));
    ensure!(fm.is_ok() == (s >= 0x80), "from_bytes_validity/ForeignMasked", "from_bytes({:#04x},..) is_ok={} for a factory that stores 7 status bits (from_bytes must validate before calling from_bytes_unchecked)", s, fm.is_ok());
    // concrete-path calls (inherent items shadowing the trait) agree with the trait
    let r = api(|| RawShortMessage::from_bytes(bytes));
    ensure!(r.is_ok() == (s >= 0x80), "from_bytes_validity/Raw/concrete_path", "RawShortMessage::from_bytes({:#04x},..) is_ok={}", s, r.is_ok());
    let st = api(|| StructuredShortMessage::from_bytes(bytes));
    ensure!(st.is_ok() == (s >= 0x80), "from_bytes_validity/Structured/concrete_path", "StructuredShortMessage::from_bytes({:#04x},..) is_ok={}", s, st.is_ok());
    if let (Ok(r), Ok(st)) = (&r, &st) {
        let (a, b) = (observe_concrete_raw(r), observe(r));
        ensure!(a == b, format!("concrete_path_differs_from_trait/Raw/{}", first_diff(&a, &b)), "method-call syntax on RawShortMessage: {:?}, through the trait: {:?}", a, b);
        let (a, b) = (observe_concrete_structured(st), observe(st));
        ensure!(a == b, format!("concrete_path_differs_from_trait/Structured/{}", first_diff(&a, &b)), "method-call syntax on StructuredShortMessage: {:?}, through the trait: {:?}", a, b);
        // references to messages, if they implement the trait (probe), observe like the message
        let want = observe(r);
        let rr: &RawShortMessage = r;
        if let Some(o) = (&probe::<&RawShortMessage>()).with_message(&rr, &mut |m| m.observe()) {
            ensure!(o == want, format!("probed_impl/ref_raw/{}", first_diff(&o, &want)), "&RawShortMessage implements ShortMessage but observes as {:?} instead of {:?}", o, want);
        }
        let sr: &StructuredShortMessage = st;
        let swant = observe(st);
        if let Some(o) = (&probe::<&StructuredShortMessage>()).with_message(&sr, &mut |m| m.observe()) {
            ensure!(o == swant, format!("probed_impl/ref_structured/{}", first_diff(&o, &swant)), "&StructuredShortMessage implements ShortMessage but observes as {:?} instead of {:?}", o, swant);
        }
    }
    // an inherent, *safe* `from_bytes_unchecked` (shadowing the unsafe trait function) would let safe
    // code create a message from any status byte (probe: nothing is checked unless it exists)
    {
        #[allow(unused_imports)]
        use crate::p_ints::{PSafeFnN, PSafeFnY, ProbeFn};
        let r: Option<Result<RawShortMessage, String>> = (&ProbeFn(RawShortMessage::from_bytes_unchecked)).call_safely(bytes);
        if let Some(Ok(m)) = r {
            let sb = guarded(|| m.status_byte());
            ensure!(s >= 0x80 || sb.is_err(), "from_bytes_validity/Raw/safe_from_bytes_unchecked", "RawShortMessage::from_bytes_unchecked is callable without `unsafe` and built a message from status byte {:#04x}", s);
        }
        let r: Option<Result<StructuredShortMessage, String>> = (&ProbeFn(StructuredShortMessage::from_bytes_unchecked)).call_safely(bytes);
        if let Some(Ok(m)) = r {
            let sb = guarded(|| m.status_byte());
            ensure!(s >= 0x80 || sb.is_err(), "from_bytes_validity/Structured/safe_from_bytes_unchecked", "StructuredShortMessage::from_bytes_unchecked is callable without `unsafe` and built a message from status byte {:#04x}", s);
        }
    }
    // other types that might implement the factory trait
    macro_rules! probe_factory {
        ($t:ty, $label:expr) => {
            if let Some(res) = (&probe::<$t>()).try_from_bytes(bytes) {
                ensure!(res.is_ok() == (s >= 0x80), format!("probed_impl/{}/from_bytes_validity", $label), "{} implements ShortMessageFactory; from_bytes({:#04x},..) is_ok={}", $label, s, res.is_ok());
                if let Ok((getters, tb)) = res {
                    ensure!(getters == tb && (tb == (s, d1, d2) || tb == ref_canon(s, d1, d2)), format!("probed_impl/{}/bytes", $label), "{} built from ({:#04x},{},{}) reports {:?} / {:?}", $label, s, d1, d2, getters, tb);
                }
            }
        };
    }
    probe_factory!((u8, U7, U7), "tuple_u8_U7_U7");
    probe_factory!((u8, u8, u8), "tuple_u8_u8_u8");
    probe_factory!([u8; 3], "array_u8_3");
    probe_factory!(u32, "u32");
    Ok(s >= 0x80)
}

// `Default` for the message types does not exist today. If it appears (a derive on the byte tuple
// would yield status byte 0), the default value is a message created through the safe API and must
// be one that from_bytes could have built.
trait PDefaultY<T> {
    fn default_obs(&self) -> Option<Result<Obs, String>>;
}
impl<T: Default + ShortMessage> PDefaultY<T> for crate::impls::Probe<T> {
    fn default_obs(&self) -> Option<Result<Obs, String>> {
        Some(guarded(|| observe(&T::default())))
    }
}
trait PDefaultN<T> {
    fn default_obs(&self) -> Option<Result<Obs, String>> {
        None
    }
}
impl<T> PDefaultN<T> for &crate::impls::Probe<T> {}

fn c_default_values(which: u64) -> CheckResult {
    let (name, r) = match which {
        0 => ("RawShortMessage", (&crate::impls::probe::<RawShortMessage>()).default_obs()),
        _ => ("StructuredShortMessage", (&crate::impls::probe::<StructuredShortMessage>()).default_obs()),
    };
    match r {
        None => Ok(false),
        Some(Err(p)) => fail(format!("default_value/{}/accessor_panics", name), format!("{}::default() exists (safe API) but its accessors panic: {}", name, p)),
        Some(Ok(o)) => {
            let (s, d1, d2) = o.bytes;
            ensure!(s >= 0x80 && d1 < 128 && d2 < 128, format!("default_value/{}/invalid_bytes", name), "{}::default() has bytes ({:#04x},{},{}): a message from_bytes would have rejected", name, s, d1, d2);
            let want = if which == 0 { (s, d1, d2) } else { ref_canon(s, d1, d2) };
            ensure!((s, d1, d2) == want, format!("default_value/{}/not_canonical", name), "{}::default() has bytes {:?}", name, (s, d1, d2));
            in_range_obs(&o)?;
            Ok(true)
        }
    }
}

// ---------------------------------------------------------------------------------------------
// C01
// ---------------------------------------------------------------------------------------------

/// (a)-(c) for one implementation and one triple (any status byte).
fn c01_triple_impl<M: Impl>(s: u8, d1: u8, d2: u8) -> CheckResult {
    let name = IMPL_NAMES[M::IDX as usize];
    let r = api(|| M::from_bytes((s, h_u7(d1), h_u7(d2))));
    ensure!(
        r.is_ok() == (s >= 0x80),
        format!("from_bytes_validity/{}", name),
        "from_bytes({:#04x},{},{}) is_ok={} but status>=0x80 is {}",
        s, d1, d2, r.is_ok(), s >= 0x80
    );
    if M::IDX == RAW {
        let t = RawShortMessage::try_from((s, h_u7(d1), h_u7(d2)));
        ensure!(t.is_ok() == (s >= 0x80), "try_from_validity/Raw", "TryFrom disagrees for {:#04x}", s);
    }
    let m = match r {
        Ok(m) => m,
        Err(_) => return Ok(false),
    };
    let b = api(|| m.to_bytes());
    let got = (b.0, b.1.get(), b.2.get());
    let getters = (api(|| m.status_byte()), api(|| m.data_byte_1()).get(), api(|| m.data_byte_2()).get());
    ensure_eq!(getters, got, format!("getters_vs_to_bytes/{}", name));
    let expected = if M::IDX == STRUCTURED { ref_canon(s, d1, d2) } else { (s, d1, d2) };
    ensure_eq!(got, expected, format!("bytes/{}/{:#04x}", name, ref_decode(s, d1, d2).type_byte));
    Ok(d1 | d2 != 0)
}

fn c01_triple(s: u8, d1: u8, d2: u8) -> CheckResult {
    let mut nt = false;
    for i in 0..4u8 {
        nt |= for_impl!(i, c01_triple_impl(s, d1, d2))?;
    }
    c_concrete_and_probes(s, d1, d2)?;
    if s >= 0x80 {
        // Into<(u8,U7,U7)> for RawShortMessage returns the input verbatim
        let raw = RawShortMessage::from_bytes((s, h_u7(d1), h_u7(d2))).map_err(|_| Fail {
            sig: "from_bytes_validity/Raw".into(),
            detail: "valid status rejected".into(),
        })?;
        let t: (u8, U7, U7) = api(|| raw.into());
        ensure_eq!((t.0, t.1.get(), t.2.get()), (s, d1, d2), "into_tuple/Raw");
        // raw -> structured -> raw is a fixpoint after one step and loses nothing meaningful
        let st = api(|| raw.to_structured());
        ensure_eq!(st, ref_structured(s, d1, d2), format!("raw_to_structured/{:#04x}", ref_decode(s, d1, d2).type_byte));
        let r2: RawShortMessage = api(|| st.to_other());
        let st2 = api(|| r2.to_structured());
        let r3: RawShortMessage = api(|| st2.to_other());
        ensure_eq!(st2, st, "raw_structured_raw_idempotent/structured");
        ensure_eq!(r3, r2, "raw_structured_raw_idempotent/raw");
        let b2 = r2.to_bytes();
        ensure_eq!((b2.0, b2.1.get(), b2.2.get()), ref_canon(s, d1, d2), "raw_structured_raw_canon");
    }
    Ok(nt)
}

pub const N_STRUCTURED: u64 = 1_331_461;

pub fn frame_by_index(i: u64) -> TimeCodeQuarterFrame {
    use helgoboss_midi::TimeCodeType::*;
    use TimeCodeQuarterFrame::*;
    assert!(i < 120);
    if i < 112 {
        let n = h_u4((i % 16) as u8);
        match i / 16 {
            0 => FrameCountLsNibble(n),
            1 => FrameCountMsNibble(n),
            2 => SecondsCountLsNibble(n),
            3 => SecondsCountMsNibble(n),
            4 => MinutesCountLsNibble(n),
            5 => MinutesCountMsNibble(n),
            _ => HoursCountLsNibble(n),
        }
    } else {
        let j = i - 112;
        Last {
            hours_count_ms_bit: j & 1 == 1,
            time_code_type: [Fps24, Fps25, Fps30DropFrame, Fps30NonDrop][(j >> 1) as usize],
        }
    }
}

/// All values of StructuredShortMessage, enumerated from the type definition.
pub fn structured_by_index(mut i: u64) -> StructuredShortMessage {
    use StructuredShortMessage as S;
    assert!(i < N_STRUCTURED);
    const T: u64 = 16 * 128 * 128;
    if i < 4 * T {
        let v = i / T;
        let r = i % T;
        let channel = h_ch((r / 16384) as u8);
        let a = ((r / 128) % 128) as u8;
        let b = (r % 128) as u8;
        return match v {
            0 => S::NoteOff { channel, key_number: h_key(a), velocity: h_u7(b) },
            1 => S::NoteOn { channel, key_number: h_key(a), velocity: h_u7(b) },
            2 => S::PolyphonicKeyPressure { channel, key_number: h_key(a), pressure_amount: h_u7(b) },
            _ => S::ControlChange { channel, controller_number: h_cn(a), control_value: h_u7(b) },
        };
    }
    i -= 4 * T;
    if i < 2 * 2048 {
        let channel = h_ch(((i % 2048) / 128) as u8);
        let a = h_u7((i % 128) as u8);
        return if i < 2048 {
            S::ProgramChange { channel, program_number: a }
        } else {
            S::ChannelPressure { channel, pressure_amount: a }
        };
    }
    i -= 4096;
    if i < T {
        return S::PitchBendChange { channel: h_ch((i / 16384) as u8), pitch_bend_value: h_u14((i % 16384) as u16) };
    }
    i -= T;
    if i < 120 {
        return S::TimeCodeQuarterFrame(frame_by_index(i));
    }
    i -= 120;
    if i < 16384 {
        return S::SongPositionPointer { position: h_u14(i as u16) };
    }
    i -= 16384;
    if i < 128 {
        return S::SongSelect { song_number: h_u7(i as u8) };
    }
    i -= 128;
    [
        S::SystemExclusiveStart,
        S::TuneRequest,
        S::SystemExclusiveEnd,
        S::TimingClock,
        S::Start,
        S::Continue,
        S::Stop,
        S::ActiveSensing,
        S::SystemReset,
        S::SystemCommonUndefined1,
        S::SystemCommonUndefined2,
        S::SystemRealTimeUndefined1,
        S::SystemRealTimeUndefined2,
    ][i as usize]
}

fn variant_name(s: &StructuredShortMessage) -> String {
    let d = format!("{:?}", s);
    d.split(|c: char| !c.is_alphanumeric()).next().unwrap_or("").to_string()
}

fn c01_structured(i: u64) -> CheckResult {
    let s = structured_by_index(i);
    let v = variant_name(&s);
    let b = api(|| s.to_bytes());
    ensure!(b.0 >= 0x80, format!("structured_bytes/{}", v), "status byte {:#04x} of {:?}", b.0, s);
    let back = api(|| StructuredShortMessage::from_bytes(b));
    ensure!(back.as_ref().ok() == Some(&s), format!("structured_bytes_roundtrip/{}", v), "{:?} -> {:?} -> {:?}", s, b, back);
    let raw: RawShortMessage = api(|| s.to_other());
    ensure_eq!(api(|| raw.to_structured()), s, format!("structured_raw_roundtrip/{}", v));
    ensure_eq!(raw.to_bytes(), b, format!("structured_to_raw_bytes/{}", v));
    let f: Foreign = api(|| s.to_other());
    ensure_eq!(api(|| f.to_structured()), s, format!("structured_foreign_roundtrip/{}", v));
    ensure_eq!(api(|| StructuredShortMessage::from_other(&s)), s, format!("structured_from_other/{}", v));
    ensure_eq!(api(|| StructuredShortMessage::from_other(&raw)), s, format!("structured_from_other_raw/{}", v));
    ensure_eq!(api(|| s.to_structured()), s, format!("structured_to_structured/{}", v));
    let s2: StructuredShortMessage = api(|| s.to_other());
    ensure_eq!(s2, s, format!("structured_to_other_self/{}", v));
    // the bytes are canonical (nothing information-free is set)
    let t = (b.0, b.1.get(), b.2.get());
    ensure_eq!(t, ref_canon(t.0, t.1, t.2), format!("structured_bytes_canonical/{}", v));
    Ok(t.1 | t.2 != 0 || (t.0 & 0x0F != 0 && t.0 < 0xF0))
}

fn c01_quarter_u7(d: u8) -> CheckResult {
    let f: TimeCodeQuarterFrame = api(|| h_u7(d).into());
    ensure_eq!(f, ref_quarter_frame(d), "quarter_frame_decode");
    let back: U7 = api(|| f.into());
    let expect = if d >> 4 == 7 { d & !0x08 } else { d };
    ensure_eq!(back.get(), expect, "quarter_frame_u7_roundtrip");
    Ok(d != 0)
}

fn c01_quarter_frame(i: u64) -> CheckResult {
    let f = frame_by_index(i);
    let b: U7 = api(|| f.into());
    let piece = if i < 112 { (i / 16) as u8 } else { 7 };
    ensure_eq!(b.get() >> 4, piece, "quarter_frame_piece_index");
    let back: TimeCodeQuarterFrame = api(|| b.into());
    ensure_eq!(back, f, "quarter_frame_roundtrip");
    Ok(true)
}

fn c01_type_byte(b: u8) -> CheckResult {
    let r = api(|| ShortMessageType::try_from(b));
    let expected = ref_type(b);
    ensure_eq!(r.clone().ok(), expected, "type_try_from");
    if let Ok(t) = r {
        ensure_eq!(api(|| u8::from(t)), b, "type_into_u8");
    }
    Ok(expected.is_some())
}


/// Stateless functions must not depend on what was called before (caches, lazily built tables,
/// thread-local fast paths): `threads` short-lived threads each start at a seed-chosen triple and
/// walk `steps` further triples in a scattered order; every result is judged by the same oracle.
fn fresh_thread_pass(ctx: &Ctx, name: &str, valid_only: bool, threads: u64, steps: u64, check: fn(u8, u8, u8) -> CheckResult) -> Sub {
    let n: u64 = if valid_only { 128 * 128 * 128 } else { 256 * 128 * 128 };
    let seed = ctx.sub_seed(name);
    let decode = move |i: u64| -> (u8, u8, u8) {
        if valid_only {
            (0x80 + (i >> 14) as u8, ((i >> 7) & 127) as u8, (i & 127) as u8)
        } else {
            ((i >> 14) as u8, ((i >> 7) & 127) as u8, (i & 127) as u8)
        }
    };
    let mut sub = Sub::new(
        name,
        &format!("{} short-lived threads, each starting at a seed-chosen triple (so that every run has different 'first calls') and walking {} further triples in a scattered order (stride 2654435761 mod domain)", threads, steps),
        "non-trivial = every evaluated triple",
        false,
    );
    let t0 = std::time::Instant::now();
    let batch = 64u64;
    let mut k = 0u64;
    while k < threads {
        let parts: Vec<Sub> = std::thread::scope(|sc| {
            let mut hs = Vec::new();
            for t in k..(k + batch).min(threads) {
                let mut part = sub.like();
                hs.push(sc.spawn(move || {
                    let mut i = splitmix(seed ^ t) % n;
                    for _ in 0..=steps {
                        let (s, d1, d2) = decode(i);
                        part.eval(triple_simplicity(s, d1, d2), || triple_json(s, d1, d2), || check(s, d1, d2));
                        i = (i + 2_654_435_761) % n;
                    }
                    part
                }));
            }
            hs.into_iter().map(|h| h.join().expect("thread died")).collect()
        });
        for p in parts {
            sub.merge(p);
        }
        k += batch;
    }
    sub.wall_ms = t0.elapsed().as_millis() as u64;
    sub.supplementary = true;
    let (s, d1, d2) = decode(splitmix(seed) % n);
    sub.samples.push(triple_json(s, d1, d2));
    sub
}

pub fn run_c01(ctx: &Ctx) -> Report {
    let mut subs = Vec::new();
    let stride = ctx.pick(5u64, 1, 1);
    {
        let n = 256u64 * 128 * 128;
        let proto = Sub::new(
            "triples",
            "all 256 x 128 x 128 (status, data1, data2) triples x 4 factory implementations",
            "non-trivial = valid status with data1|data2 != 0",
            stride == 1,
        );
        let decode = |i: u64| ((i >> 14) as u8, ((i >> 7) & 127) as u8, (i & 127) as u8);
        let mut sub = par_enum(ctx, &proto, n / stride, |sub, j| {
            let (s, d1, d2) = decode(j * stride);
            sub.eval(triple_simplicity(s, d1, d2), || triple_json(s, d1, d2), || c01_triple(s, d1, d2));
        });
        sub.add_samples(n / stride, ctx.seed, |j| {
            let (s, d1, d2) = decode(j * stride);
            triple_json(s, d1, d2)
        });
        subs.push(sub);
    }
    {
        let proto = Sub::new(
            "structured_values",
            "all 1331461 values of StructuredShortMessage, built from the type definition",
            "non-trivial = value with a non-zero field",
            stride == 1,
        );
        let mut sub = par_enum(ctx, &proto, N_STRUCTURED / stride, |sub, j| {
            let i = j * stride;
            sub.eval(i as u128, || json!({"index": i, "value": format!("{:?}", structured_by_index(i))}), || c01_structured(i));
        });
        sub.add_samples(N_STRUCTURED / stride, ctx.seed, |j| json!({"index": j * stride, "value": format!("{:?}", structured_by_index(j * stride))}));
        subs.push(sub);
    }
    {
        let mut sub = Sub::new("quarter_u7", "all 128 U7 values -> TimeCodeQuarterFrame -> U7", "non-zero byte", true);
        for d in 0..128u8 {
            sub.eval(d as u128, || json!({"byte": d}), || c01_quarter_u7(d));
        }
        sub.add_samples(128, ctx.seed, |i| json!({"byte": i}));
        subs.push(sub);
        let mut sub = Sub::new("quarter_frames", "all 120 TimeCodeQuarterFrame values -> U7 -> frame", "every frame", true);
        for i in 0..120u64 {
            sub.eval(i as u128, || json!({"index": i, "frame": format!("{:?}", frame_by_index(i))}), || c01_quarter_frame(i));
        }
        sub.add_samples(120, ctx.seed, |i| json!({"index": i, "frame": format!("{:?}", frame_by_index(i))}));
        subs.push(sub);
        let mut sub = Sub::new("type_bytes", "all 256 u8 -> ShortMessageType -> u8", "byte is one of the 23 type values", true);
        for b in 0..=255u8 {
            sub.eval(b as u128, || json!({"byte": b}), || c01_type_byte(b));
        }
        sub.add_samples(256, ctx.seed, |i| json!({"byte": i}));
        subs.push(sub);
    }
    subs.push(fresh_thread_pass(ctx, "fresh_threads_scattered_order", false, ctx.pick(32, 512, 4096), 200, c01_triple));
    {
        let mut sub = Sub::new("probed_default_values", "Default::default() of RawShortMessage / StructuredShortMessage, if such an impl exists (none does today): its bytes must be ones from_bytes accepts and no accessor may panic", "non-trivial = the impl exists", true);
        sub.supplementary = true;
        for which in 0..2u64 {
            sub.eval(which as u128, || json!({"default_of": which}), || c_default_values(which));
        }
        sub.samples.push(json!({"default_of": 0, "note": "nothing to check unless the impl exists"}));
        subs.push(sub);
    }
    Report {
        subs,
        rule: "exhaustive enumeration of the stated finite domains; a case is non-trivial when it carries a non-zero data field (the suite never feeds those through the structured form)".into(),
        assumptions: vec![
            "oracle: hand-written MIDI 1.0 status table (harness/src/refmodel.rs), independent of the crate".into(),
            "third-party implementors are the two harness-defined types Foreign and ForeignTuple".into(),
        ],
    }
}

pub fn replay_c01(sub: &str, case: &Value) -> Option<CheckResult> {
    match sub {
        "triples" | "fresh_threads_scattered_order" => triple_from(case).map(|(s, a, b)| c01_triple(s, a, b)),
        "structured_values" => json_u64(&case["index"]).filter(|i| *i < N_STRUCTURED).map(c01_structured),
        "quarter_u7" => json_u8(&case["byte"]).filter(|b| *b < 128).map(c01_quarter_u7),
        "quarter_frames" => json_u64(&case["index"]).filter(|i| *i < 120).map(c01_quarter_frame),
        "type_bytes" => json_u8(&case["byte"]).map(c01_type_byte),
        "probed_default_values" => json_u64(&case["default_of"]).map(c_default_values),
        _ => None,
    }
}

// ---------------------------------------------------------------------------------------------
// C02
// ---------------------------------------------------------------------------------------------

fn sup_of(r: RSuper) -> MessageSuperType {
    match r {
        RSuper::ChannelVoice => MessageSuperType::ChannelVoice,
        RSuper::ChannelMode => MessageSuperType::ChannelMode,
        RSuper::SystemCommon => MessageSuperType::SystemCommon,
        RSuper::SystemRealTime => MessageSuperType::SystemRealTime,
        RSuper::SystemExclusive => MessageSuperType::SystemExclusive,
    }
}

fn fuzzy_of(r: RSuper) -> FuzzyMessageSuperType {
    match r {
        RSuper::ChannelVoice | RSuper::ChannelMode => FuzzyMessageSuperType::Channel,
        RSuper::SystemCommon => FuzzyMessageSuperType::SystemCommon,
        RSuper::SystemRealTime => FuzzyMessageSuperType::SystemRealTime,
        RSuper::SystemExclusive => FuzzyMessageSuperType::SystemExclusive,
    }
}

fn main_of(r: RMain) -> MessageMainCategory {
    match r {
        RMain::Channel => MessageMainCategory::Channel,
        RMain::System => MessageMainCategory::System,
    }
}

fn c02_impl<M: Impl>(s: u8, d1: u8, d2: u8) -> CheckResult {
    let name = IMPL_NAMES[M::IDX as usize];
    let m = api(|| M::from_bytes((s, h_u7(d1), h_u7(d2)))).map_err(|_| Fail {
        sig: format!("from_bytes/{}", name),
        detail: "valid status rejected".into(),
    })?;
    let o = observe(&m);
    in_range_obs(&o)?;
    let d = ref_decode(s, d1, d2);
    let tb = Hex(d.type_byte);
    let boundary = Boundary(d.type_byte, d1);
    ensure_eq!(Some(o.ty), ref_type(d.type_byte), format!("type/{}/{}", name, tb));
    ensure_eq!(u8::from(o.ty), d.type_byte, format!("type_byte/{}/{}", name, tb));
    ensure_eq!(o.channel, d.channel, format!("channel/{}/{}", name, tb));
    ensure_eq!(o.sup, sup_of(d.super_type), format!("super_type/{}/{}{}", name, tb, boundary));
    ensure_eq!(o.main, main_of(d.main), format!("main_category/{}/{}", name, tb));
    ensure_eq!(o.key, d.key, format!("key_number/{}/{}", name, tb));
    ensure_eq!(o.velocity, d.velocity, format!("velocity/{}/{}", name, tb));
    ensure_eq!(o.controller, d.controller, format!("controller_number/{}/{}", name, tb));
    ensure_eq!(o.control_value, d.control_value, format!("control_value/{}/{}", name, tb));
    ensure_eq!(o.program, d.program, format!("program_number/{}/{}", name, tb));
    ensure_eq!(o.pressure, d.pressure, format!("pressure_amount/{}/{}", name, tb));
    ensure_eq!(o.bend, d.bend, format!("pitch_bend_value/{}/{}", name, tb));
    ensure_eq!(o.is_note, d.is_note, format!("is_note/{}/{}", name, tb));
    ensure_eq!(o.is_note_on, d.is_note_on, format!("is_note_on/{}/{}", name, tb));
    ensure_eq!(o.is_note_off, d.is_note_off, format!("is_note_off/{}/{}", name, tb));
    ensure_eq!(o.structured, ref_structured(s, d1, d2), format!("to_structured/{}/{}", name, tb));
    // type-level classification agrees with that of every message of the type
    let fz = api(|| o.ty.super_type());
    ensure_eq!(fz, fuzzy_of(d.super_type), format!("type_super_type/{}", tb));
    ensure_eq!(api(|| fz.main_category()), o.main, format!("fuzzy_main_category/{}", tb));
    ensure_eq!(api(|| o.sup.main_category()), o.main, format!("super_main_category/{}", tb));
    // the controller-number predicate behind the Channel Mode distinction
    if let Some(cn) = d.controller {
        let p = api(|| h_cn(cn).is_channel_mode_message_controller_number());
        ensure_eq!(p, cn >= 120, format!("is_channel_mode_controller/cc{}", if (119..=121).contains(&cn) { cn.to_string() } else { "other".into() }));
    }
    Ok(true)
}

fn c02_triple(s: u8, d1: u8, d2: u8) -> CheckResult {
    for i in 0..4u8 {
        for_impl!(i, c02_impl(s, d1, d2))?;
    }
    c_concrete_and_probes(s, d1, d2)?;
    Ok(true)
}

pub fn run_c02(ctx: &Ctx) -> Report {
    let mut subs = Vec::new();
    let stride = ctx.pick(5u64, 1, 1);
    let n = 128u64 * 128 * 128;
    let proto = Sub::new(
        "classify",
        "all 2^21 valid (status, data1, data2) triples x {Raw, Structured, Foreign, ForeignTuple} x 19 observables",
        "every valid triple is a distinct case; boundary classes counted in 'classes'",
        stride == 1,
    );
    let decode = |i: u64| (0x80 + (i >> 14) as u8, ((i >> 7) & 127) as u8, (i & 127) as u8);
    let mut sub = par_enum(ctx, &proto, n / stride, |sub, j| {
        let (s, d1, d2) = decode(j * stride);
        if s >> 4 == 0xB && (119..=121).contains(&d1) || s >> 4 == 0xB && d1 == 127 {
            sub.class("control_change_119_120_121_127");
        }
        if s >> 4 == 0x9 && d2 <= 1 {
            sub.class("note_on_velocity_0_or_1");
        }
        if (0xF0..=0xF7).contains(&s) {
            sub.class("status_f0_f7");
        }
        sub.eval(triple_simplicity(s, d1, d2), || triple_json(s, d1, d2), || c02_triple(s, d1, d2));
    });
    sub.add_samples(n / stride, ctx.seed, |j| {
        let (s, d1, d2) = decode(j * stride);
        triple_json(s, d1, d2)
    });
    subs.push(sub);
    let mut sub = Sub::new("type_bytes", "all 256 u8 values of the ShortMessageType conversion", "byte is a type value", true);
    for b in 0..=255u8 {
        sub.eval(b as u128, || json!({"byte": b}), || c01_type_byte(b));
    }
    sub.add_samples(256, ctx.seed, |i| json!({"byte": i}));
    subs.push(sub);
    subs.push(fresh_thread_pass(ctx, "fresh_threads_scattered_order", true, ctx.pick(32, 512, 4096), 200, c02_triple));
    Report {
        subs,
        rule: "exhaustive over valid triples and implementations; each observable compared with a literal MIDI 1.0 table".into(),
        assumptions: vec!["Channel Mode = Control Change with controller 120-127 (MIDI 1.0, as the property states)".into()],
    }
}

pub fn replay_c02(sub: &str, case: &Value) -> Option<CheckResult> {
    match sub {
        "classify" | "fresh_threads_scattered_order" => triple_from(case).filter(|t| t.0 >= 0x80).map(|(s, a, b)| c02_triple(s, a, b)),
        "type_bytes" => json_u8(&case["byte"]).map(c01_type_byte),
        _ => None,
    }
}

// ---------------------------------------------------------------------------------------------
// C03
// ---------------------------------------------------------------------------------------------

fn canon_obs(o: &Obs) -> Obs {
    let mut c = o.clone();
    let (s, a, b) = ref_canon(o.status, o.d1, o.d2);
    c.status = s;
    c.d1 = a;
    c.d2 = b;
    c.bytes = ref_canon(o.bytes.0, o.bytes.1, o.bytes.2);
    c
}

fn first_diff(a: &Obs, b: &Obs) -> &'static str {
    if a.status != b.status { return "status_byte"; }
    if a.d1 != b.d1 { return "data_byte_1"; }
    if a.d2 != b.d2 { return "data_byte_2"; }
    if a.bytes != b.bytes { return "to_bytes"; }
    if a.ty != b.ty { return "type"; }
    if a.sup != b.sup { return "super_type"; }
    if a.main != b.main { return "main_category"; }
    if a.is_note_on != b.is_note_on { return "is_note_on"; }
    if a.is_note_off != b.is_note_off { return "is_note_off"; }
    if a.is_note != b.is_note { return "is_note"; }
    if a.channel != b.channel { return "channel"; }
    if a.key != b.key { return "key_number"; }
    if a.velocity != b.velocity { return "velocity"; }
    if a.controller != b.controller { return "controller_number"; }
    if a.control_value != b.control_value { return "control_value"; }
    if a.program != b.program { return "program_number"; }
    if a.pressure != b.pressure { return "pressure_amount"; }
    if a.bend != b.bend { return "pitch_bend_value"; }
    if a.structured != b.structured { return "to_structured"; }
    "none"
}

fn c03_pair<A: Impl, B: Impl>(s: u8, d1: u8, d2: u8) -> CheckResult {
    let (an, bn) = (IMPL_NAMES[A::IDX as usize], IMPL_NAMES[B::IDX as usize]);
    let a = api(|| A::from_bytes((s, h_u7(d1), h_u7(d2)))).map_err(|_| Fail {
        sig: format!("from_bytes/{}", an),
        detail: "valid status rejected".into(),
    })?;
    let b: B = api(|| a.to_other());
    let b2: B = api(|| B::from_other(&a));
    let oa = observe(&a);
    let ob = observe(&b);
    let ob2 = observe(&b2);
    in_range_obs(&oa)?;
    in_range_obs(&ob)?;
    ensure!(ob == ob2, format!("to_other_vs_from_other/{}->{}/{}", an, bn, first_diff(&ob, &ob2)), "{:?} vs {:?}", ob, ob2);
    let structured_involved = A::IDX == STRUCTURED || B::IDX == STRUCTURED;
    let (ca, cb) = if structured_involved { (canon_obs(&oa), canon_obs(&ob)) } else { (oa.clone(), ob.clone()) };
    ensure!(ca == cb, format!("observables/{}->{}/{}", an, bn, first_diff(&ca, &cb)), "source {:?} vs converted {:?}", oa, ob);
    // conversions commute with accessors: to_structured(a) observes like a (modulo canonical bytes)
    let os = observe(&oa.structured);
    let ca = canon_obs(&oa);
    ensure!(canon_obs(&os) == ca, format!("to_structured_commutes/{}/{}", an, first_diff(&canon_obs(&os), &ca)), "{:?} vs {:?}", os, oa);
    // a structured message reports canonical bytes only
    if B::IDX == STRUCTURED {
        ensure_eq!(ob.bytes, ref_canon(s, d1, d2), "structured_bytes_canonical");
    }
    Ok(A::IDX != B::IDX && (d1 | d2) != 0)
}

fn c03_case(a: u8, b: u8, s: u8, d1: u8, d2: u8) -> CheckResult {
    if a == 0 && b == 1 {
        c_concrete_and_probes(s, d1, d2)?;
    }
    for_impl_pair!(a, b, c03_pair(s, d1, d2))
}

pub fn run_c03(ctx: &Ctx) -> Report {
    let mut subs = Vec::new();
    let n = 128u64 * 128 * 128;
    let decode = |i: u64| (0x80 + (i >> 14) as u8, ((i >> 7) & 127) as u8, (i & 127) as u8);
    for a in 0..4u8 {
        for b in 0..4u8 {
            // quick: full product for pairs whose source is Raw or Structured, every 7th triple
            // (offset by pair) for the rest; thorough: the full product for all 16 pairs
            let stride = if ctx.reduced { 11 } else { 1 };
            let name = format!("pair_{}_{}", IMPL_NAMES[a as usize], IMPL_NAMES[b as usize]);
            let proto = Sub::new(
                &name,
                &format!("valid triples (stride {}) : {} -> to_other/from_other -> {}, 19 observables", stride, IMPL_NAMES[a as usize], IMPL_NAMES[b as usize]),
                "non-trivial = different representations and data1|data2 != 0",
                stride == 1,
            );
            let off = ((a * 4 + b) as u64) % stride;
            let cnt = (n - off + stride - 1) / stride;
            let mut sub = par_enum(ctx, &proto, cnt, |sub, j| {
                let (s, d1, d2) = decode(j * stride + off);
                sub.eval(
                    triple_simplicity(s, d1, d2),
                    || json!({"from": a, "to": b, "status": s, "data1": d1, "data2": d2}),
                    || c03_case(a, b, s, d1, d2),
                );
            });
            sub.add_samples(cnt, ctx.seed ^ (a as u64 * 4 + b as u64), |j| {
                let (s, d1, d2) = decode(j * stride + off);
                json!({"from": IMPL_NAMES[a as usize], "to": IMPL_NAMES[b as usize], "status": s, "data1": d1, "data2": d2})
            });
            sub.samples.truncate(2);
            subs.push(sub);
        }
    }
    Report {
        subs,
        rule: "exhaustive over valid triples x ordered pairs of the four implementations (quick: stride 7 for pairs with a foreign source); differential: every observable of the converted message equals that of the source, byte observables compared after zeroing information-free parts when StructuredShortMessage is involved".into(),
        assumptions: vec!["third-party implementors are the harness types Foreign (getters only) and ForeignTuple (overrides to_bytes)".into()],
    }
}

pub fn replay_c03(sub: &str, case: &Value) -> Option<CheckResult> {
    if !sub.starts_with("pair_") {
        return None;
    }
    let idx = |v: &Value| -> Option<u8> {
        if let Some(s) = v.as_str() {
            IMPL_NAMES.iter().position(|n| *n == s).map(|p| p as u8)
        } else {
            json_u8(v).filter(|x| *x < 4)
        }
    };
    let a = idx(&case["from"])?;
    let b = idx(&case["to"])?;
    let (s, d1, d2) = triple_from(case)?;
    if s < 0x80 {
        return None;
    }
    Some(c03_case(a, b, s, d1, d2))
}
