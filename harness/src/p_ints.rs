//! C04 (restricted integers never out of range, every feature configuration) and
//! C05 (conversions, parsing, ordering, formatting numerically faithful).
use crate::engine::*;
use crate::{ensure, ensure_eq};
use helgoboss_midi::{Channel, ControllerNumber, KeyNumber, U14, U4, U7};
use serde_json::{json, Value};
use std::convert::TryFrom;
use std::fmt::{Debug, Display, Write};
use std::hash::Hash;
use std::str::FromStr;

#[derive(Clone, Copy, PartialEq, Eq, Debug)]
pub enum Mode {
    C04,
    C05,
}

// ---------------------------------------------------------------------------------------------
// The six newtypes behind one trait (harness-side view: public API only)
// ---------------------------------------------------------------------------------------------

pub trait Nt: Copy + Debug + Display + FromStr + Ord + Default + Hash + Send + Sync + 'static {
    const NAME: &'static str;
    const MAXV: u128;
    const REPR_BITS: u32;
    fn getw(self) -> u128;
    /// `new` on the representation type (value must fit the representation)
    fn new_repr(v: u128) -> Self;
    fn min_const() -> Self;
    fn max_const() -> Self;
}

macro_rules! impl_nt {
    ($t:ident, $repr:ty, $max:expr) => {
        impl Nt for $t {
            const NAME: &'static str = stringify!($t);
            const MAXV: u128 = $max;
            const REPR_BITS: u32 = <$repr>::BITS;
            fn getw(self) -> u128 {
                self.get() as u128
            }
            fn new_repr(v: u128) -> Self {
                $t::new(v as $repr)
            }
            fn min_const() -> Self {
                $t::MIN
            }
            fn max_const() -> Self {
                $t::MAX
            }
        }
    };
}
impl_nt!(U4, u8, 15);
impl_nt!(U7, u8, 127);
impl_nt!(U14, u16, 16383);
impl_nt!(Channel, u8, 15);
impl_nt!(KeyNumber, u8, 127);
impl_nt!(ControllerNumber, u8, 127);

/// all in-range values of a newtype, built through the checked constructor
/// (a value the checked constructor wrongly rejects is obtained by parsing instead, or replaced by
/// MIN - the `new_<T>` sub-check of C04 / C05 reports the rejection - so that the rest of the run
/// still takes place instead of ending in an infrastructure error)
fn all_values<N: Nt>() -> Vec<N> {
    (0..=N::MAXV)
        .map(|v| match guarded(|| N::new_repr(v)) {
            Ok(x) => x,
            Err(_) => guarded(|| v.to_string().parse::<N>().ok()).ok().flatten().unwrap_or_else(N::min_const),
        })
        .collect()
}

// ---------------------------------------------------------------------------------------------
// Primitive source types
// ---------------------------------------------------------------------------------------------

pub trait Src: Copy + Debug + Display + FromStr + PartialEq + Send + Sync + 'static {
    const NAME: &'static str;
    const BITS: u32;
    /// mathematical value if non-negative
    fn nonneg(self) -> Option<u128>;
    /// |value| as simplicity measure
    fn magnitude(self) -> u128;
    fn from_bits(b: u128) -> Self;
    fn all_small() -> Vec<Self>;
    fn from_i128(v: i128) -> Option<Self>;
    fn from_u128(v: u128) -> Option<Self>;
}

macro_rules! impl_src {
    ($t:ty, $signed:expr) => {
        impl Src for $t {
            const NAME: &'static str = stringify!($t);
            const BITS: u32 = <$t>::BITS;
            fn nonneg(self) -> Option<u128> {
                u128::try_from(self).ok()
            }
            #[allow(unused_comparisons)]
            fn magnitude(self) -> u128 {
                if self < 0 {
                    (self as i128).unsigned_abs()
                } else {
                    self as u128
                }
            }
            fn from_bits(b: u128) -> Self {
                b as $t
            }
            fn all_small() -> Vec<Self> {
                if <$t>::BITS <= 16 {
                    (<$t>::MIN..=<$t>::MAX).collect()
                } else {
                    Vec::new()
                }
            }
            fn from_i128(v: i128) -> Option<Self> {
                <$t>::try_from(v).ok()
            }
            fn from_u128(v: u128) -> Option<Self> {
                <$t>::try_from(v).ok()
            }
        }
    };
}
impl_src!(u8, false);
impl_src!(i8, true);
impl_src!(u16, false);
impl_src!(i16, true);
impl_src!(u32, false);
impl_src!(i32, true);
impl_src!(u64, false);
impl_src!(i64, true);
impl_src!(u128, false);
impl_src!(i128, true);
impl_src!(usize, false);
impl_src!(isize, true);

/// Source values: exhaustive for 8/16-bit types; otherwise boundaries, powers of two +-1,
/// wrap-around aliases of in-range values, and `n_random` seeded uniform / log-uniform values.
pub fn source_values<S: Src>(seed: u64, n_random: u64) -> (Vec<S>, bool) {
    if S::BITS <= 16 {
        return (S::all_small(), true);
    }
    let mut out: Vec<S> = Vec::new();
    let mut push_i = |v: i128| {
        if let Some(s) = S::from_i128(v) {
            out.push(s);
        }
    };
    let interesting: [i128; 14] = [0, 1, 2, 15, 16, 17, 127, 128, 129, 255, 256, 16383, 16384, 16385];
    for v in interesting {
        push_i(v);
        push_i(-v);
    }
    for k in 0..127u32 {
        let p = 1i128 << k;
        for d in [-1i128, 0, 1] {
            push_i(p + d);
            push_i(-(p + d));
        }
    }
    push_i(i128::MIN);
    push_i(i128::MAX);
    // wrap-around aliases: values a bare `as` cast to u8 / u16 would smuggle into range
    for v in [0i128, 1, 7, 15, 16, 100, 127, 128, 1000, 16383, 16384] {
        for sh in [8u32, 16, 32, 64] {
            for k in [1i128, 2, 3, 255, 256, 65535] {
                if let Some(m) = k.checked_mul(1i128 << sh) {
                    push_i(m + v);
                    push_i(v - m);
                }
            }
        }
    }
    let mut outu: Vec<S> = Vec::new();
    for k in 0..128u32 {
        let p = 1u128 << k;
        for v in [p.wrapping_sub(1), p, p.wrapping_add(1)] {
            if let Some(s) = S::from_u128(v) {
                outu.push(s);
            }
        }
    }
    if let Some(s) = S::from_u128(u128::MAX) {
        outu.push(s);
    }
    // two's-complement style aliases at the top of the unsigned range: 2^BITS - 2^sh + v
    for sh in [8u32, 16, 32, 64, 96, 127] {
        for v in [0u128, 1, 5, 15, 16, 127, 128, 16383, 16384] {
            let x = (u128::MAX - (1u128 << sh) + 1).wrapping_add(v);
            if let Some(s) = S::from_u128(x) {
                outu.push(s);
            }
            if S::BITS < 128 {
                let top = (1u128 << S::BITS) - (1u128 << sh.min(S::BITS - 1));
                if let Some(s) = S::from_u128(top.wrapping_add(v)) {
                    outu.push(s);
                }
            }
        }
    }
    out.extend(outu);
    let mut m = Mix(seed ^ hash_str(S::NAME));
    for i in 0..n_random {
        let bits = ((m.next() as u128) << 64) | m.next() as u128;
        let v = match i % 4 {
            0 => S::from_bits(bits),                                   // uniform over the type
            1 => S::from_bits(bits >> m.below(128)),                   // log-uniform, non-negative
            2 => {
                // small value plus a multiple of 2^8 / 2^16 / 2^32 / 2^64 (wrap-around alias)
                let small = bits >> (112 + m.below(16));
                let shift = [8u32, 16, 32, 64][m.below(4) as usize].min(S::BITS - 1);
                S::from_bits(small | ((1 + m.below(3)) as u128) << shift)
            }
            _ => S::from_bits(!(bits >> m.below(128))),                // log-uniform negative / high
        };
        out.push(v);
    }
    (out, false)
}

fn nt_simplicity(mag: u128) -> u128 {
    mag
}

// ---------------------------------------------------------------------------------------------
// Conversions primitive -> newtype
// ---------------------------------------------------------------------------------------------

fn conv_sig(kind: &str, from: &str, to: &str) -> String {
    format!("{}/{}->{}", kind, from, to)
}

/// One conversion `S -> N` through `TryFrom` (which also covers `From` via the blanket impl).
fn check_try_from<N: Nt + TryFrom<S>, S: Src>(mode: Mode, s: S) -> CheckResult {
    let r: Option<N> = api(|| N::try_from(s)).ok();
    let math = s.nonneg();
    let in_range = math.map_or(false, |w| w <= N::MAXV);
    if let Some(v) = r {
        if mode == Mode::C04 {
            ensure!(v.getw() <= N::MAXV, conv_sig("out_of_range", S::NAME, N::NAME), "{}::try_from({}{}) yielded {:?} (max {})", N::NAME, s, S::NAME, v, N::MAXV);
        }
    }
    ensure!(
        r.is_some() == in_range,
        conv_sig(if in_range { "rejects_in_range" } else { "accepts_out_of_range" }, S::NAME, N::NAME),
        "{}::try_from({}{}) -> {:?}, but in range is {}",
        N::NAME, s, S::NAME, r, in_range
    );
    if mode == Mode::C05 {
        if let Some(v) = r {
            ensure!(Some(v.getw()) == math, conv_sig("value_changed", S::NAME, N::NAME), "{}::try_from({}{}) yielded {:?}", N::NAME, s, S::NAME, v);
        }
    }
    // non-trivial: out-of-range source, or in-range value of a different-width / signed source
    Ok(!in_range || S::BITS != N::REPR_BITS || S::NAME.starts_with('i'))
}

fn sweep_try_from<N: Nt + TryFrom<S>, S: Src>(ctx: &Ctx, mode: Mode, subs: &mut Vec<Sub>, n_random: u64) {
    let (values, exhaustive) = source_values::<S>(ctx.sub_seed("wide"), n_random);
    let name = format!("try_from_{}_{}", S::NAME, N::NAME);
    let proto = Sub::new(
        &name,
        &format!(
            "{} -> {} via TryFrom/From: {}",
            S::NAME,
            N::NAME,
            if exhaustive { "every source value".to_string() } else { format!("boundaries, powers of two +-1, wrap-around aliases, {} seeded random values", n_random) }
        ),
        "non-trivial = out-of-range source or in-range value of a different-width/signed source",
        exhaustive,
    );
    let n = values.len() as u64;
    let mut sub = par_enum(ctx, &proto, n, |sub, i| {
        let s = values[i as usize];
        sub.eval(
            nt_simplicity(s.magnitude()),
            || json!({"conv": "try_from", "source_type": S::NAME, "target": N::NAME, "value": s.to_string()}),
            || check_try_from::<N, S>(mode, s),
        );
    });
    // nontrivial counted per evaluation; duplicates in the candidate list of wide types are possible,
    // so count distinct values instead
    if !exhaustive {
        let mut d: Vec<String> = values.iter().map(|v| v.to_string()).collect();
        d.sort();
        d.dedup();
        sub.nontrivial = sub.nontrivial.min(d.len() as u64);
    }
    sub.add_samples(n, ctx.seed, |i| json!({"source_type": S::NAME, "target": N::NAME, "value": values[i as usize].to_string()}));
    sub.samples.truncate(3);
    subs.push(sub);
}

macro_rules! try_from_sources {
    ($cb:ident, $n:ident, u8backed) => {
        $cb!($n; u8, u16, i16, u32, i32, u64, i64, u128, i128, usize, isize);
    };
}

macro_rules! try_from_table {
    ($cb:ident) => {
        try_from_sources!($cb, U4, u8backed);
        try_from_sources!($cb, U7, u8backed);
        try_from_sources!($cb, Channel, u8backed);
        try_from_sources!($cb, KeyNumber, u8backed);
        try_from_sources!($cb, ControllerNumber, u8backed);
        $cb!(U14; u8, i8, u16, u32, i32, u64, i64, u128, i128, usize);
    };
}

// ---------------------------------------------------------------------------------------------
// Infallible From<primitive> for U14 (u8; i8 before the fix)
// ---------------------------------------------------------------------------------------------

fn check_from_u8_u14(mode: Mode, s: u8) -> CheckResult {
    let v: U14 = api(|| U14::from(s));
    ensure!(v.getw() <= U14::MAXV, "out_of_range/from_u8->U14", "U14::from({}u8) = {:?}", s, v);
    if mode == Mode::C05 {
        ensure_eq!(v.getw(), s as u128, "value_changed/from_u8->U14");
    }
    Ok(true)
}

// ---------------------------------------------------------------------------------------------
// Conversions newtype -> primitive and newtype -> newtype
// ---------------------------------------------------------------------------------------------

fn check_into_prim<N: Nt, T: Src + From<N>>(v: N) -> CheckResult {
    let t: T = api(|| T::from(v));
    ensure!(t.nonneg() == Some(v.getw()), conv_sig("value_changed", N::NAME, T::NAME), "{}::from({:?}) = {}", T::NAME, v, t);
    Ok(true)
}

fn sweep_into_prim<N: Nt, T: Src + From<N>>(sub: &mut Sub, values: &[N]) {
    for v in values {
        let v = *v;
        sub.eval(v.getw(), || json!({"conv": "into_prim", "source": N::NAME, "target_type": T::NAME, "value": v.getw() as u64}), || check_into_prim::<N, T>(v));
    }
}

macro_rules! into_prim_table {
    ($cb:ident) => {
        $cb!(U4; u8, i8, u16, i16, u32, i32, u64, i64, u128, i128, usize, isize);
        $cb!(U7; u8, i8, u16, i16, u32, i32, u64, i64, u128, i128, usize, isize);
        $cb!(Channel; u8, i8, u16, i16, u32, i32, u64, i64, u128, i128, usize, isize);
        $cb!(KeyNumber; u8, i8, u16, i16, u32, i32, u64, i64, u128, i128, usize, isize);
        $cb!(ControllerNumber; u8, i8, u16, i16, u32, i32, u64, i64, u128, i128, usize, isize);
        $cb!(U14; u16, i16, u32, i32, u64, i64, u128, i128, usize, isize);
    };
}

fn check_nt_from<A: Nt, B: Nt + From<A>>(mode: Mode, a: A) -> CheckResult {
    let b: B = api(|| B::from(a));
    ensure!(b.getw() <= B::MAXV, conv_sig("out_of_range", A::NAME, B::NAME), "{}::from({:?}) = {:?}", B::NAME, a, b);
    if mode == Mode::C05 {
        ensure_eq!(b.getw(), a.getw(), conv_sig("value_changed", A::NAME, B::NAME));
    }
    Ok(true)
}

fn check_nt_try_from<A: Nt, B: Nt + TryFrom<A>>(mode: Mode, a: A) -> CheckResult {
    let r: Option<B> = api(|| B::try_from(a)).ok();
    let in_range = a.getw() <= B::MAXV;
    if let Some(b) = r {
        ensure!(b.getw() <= B::MAXV, conv_sig("out_of_range", A::NAME, B::NAME), "{}::try_from({:?}) = {:?}", B::NAME, a, b);
    }
    ensure!(
        r.is_some() == in_range,
        conv_sig(if in_range { "rejects_in_range" } else { "accepts_out_of_range" }, A::NAME, B::NAME),
        "{}::try_from({:?}) -> {:?}", B::NAME, a, r
    );
    if mode == Mode::C05 {
        if let Some(b) = r {
            ensure_eq!(b.getw(), a.getw(), conv_sig("value_changed", A::NAME, B::NAME));
        }
    }
    Ok(true)
}

macro_rules! nt_from_table {
    ($cb:ident) => {
        $cb!(U4, U7);
        $cb!(U4, U14);
        $cb!(U4, Channel);
        $cb!(Channel, U4);
        $cb!(U7, U14);
        $cb!(U7, KeyNumber);
        $cb!(U7, ControllerNumber);
        $cb!(KeyNumber, U7);
        $cb!(ControllerNumber, U7);
    };
}

macro_rules! nt_try_from_table {
    ($cb:ident) => {
        $cb!(U14, U4);
        $cb!(U14, U7);
        $cb!(U7, U4);
    };
}

// ---------------------------------------------------------------------------------------------
// new / constants
// ---------------------------------------------------------------------------------------------

fn check_new<N: Nt>(v: u128) -> CheckResult {
    let should_panic = v > N::MAXV;
    let r = expect_panic(|| N::new_repr(v));
    match r {
        Ok(msg) => {
            ensure!(should_panic, format!("new_panics_in_range/{}", N::NAME), "{}::new({}) panicked: {}", N::NAME, v, msg);
        }
        Err(val) => {
            ensure!(val.getw() <= N::MAXV, format!("new_accepts_out_of_range/{}", N::NAME), "{}::new({}) returned {:?} instead of panicking", N::NAME, v, val);
            ensure!(!should_panic, format!("new_accepts_out_of_range/{}", N::NAME), "{}::new({}) did not panic", N::NAME, v);
            ensure_eq!(val.getw(), v, format!("new_value_changed/{}", N::NAME));
        }
    }
    Ok(should_panic || v > 0)
}

fn check_consts<N: Nt>(mode: Mode) -> CheckResult {
    let (mn, mx, df) = (N::min_const(), N::max_const(), api(|| N::default()));
    ensure!(mn.getw() <= N::MAXV && mx.getw() <= N::MAXV && df.getw() <= N::MAXV, format!("const_out_of_range/{}", N::NAME), "MIN {:?} MAX {:?} default {:?}", mn, mx, df);
    if mode == Mode::C05 {
        ensure_eq!(mn.getw(), 0, format!("min_value/{}", N::NAME));
        ensure_eq!(mx.getw(), N::MAXV, format!("max_value/{}", N::NAME));
        ensure!(df == mn, format!("default_is_min/{}", N::NAME), "default {:?} != MIN {:?}", df, mn);
    }
    Ok(true)
}

fn check_controller_constants() -> CheckResult {
    use helgoboss_midi::controller_numbers::*;
    let all = [
        BANK_SELECT, MODULATION_WHEEL, BREATH_CONTROLLER, FOOT_CONTROLLER, PORTAMENTO_TIME, DATA_ENTRY_MSB, CHANNEL_VOLUME, BALANCE, PAN,
        EXPRESSION_CONTROLLER, EFFECT_CONTROL_1, EFFECT_CONTROL_2, GENERAL_PURPOSE_CONTROLLER_1, GENERAL_PURPOSE_CONTROLLER_2,
        GENERAL_PURPOSE_CONTROLLER_3, GENERAL_PURPOSE_CONTROLLER_4, BANK_SELECT_LSB, MODULATION_WHEEL_LSB, BREATH_CONTROLLER_LSB,
        FOOT_CONTROLLER_LSB, PORTAMENTO_TIME_LSB, DATA_ENTRY_MSB_LSB, CHANNEL_VOLUME_LSB, BALANCE_LSB, PAN_LSB, EXPRESSION_CONTROLLER_LSB,
        EFFECT_CONTROL_1_LSB, EFFECT_CONTROL_2_LSB, GENERAL_PURPOSE_CONTROLLER_1_LSB, GENERAL_PURPOSE_CONTROLLER_2_LSB,
        GENERAL_PURPOSE_CONTROLLER_3_LSB, GENERAL_PURPOSE_CONTROLLER_4_LSB, DAMPER_PEDAL_ON_OFF, PORTAMENTO_ON_OFF, SOSTENUTO_ON_OFF,
        SOFT_PEDAL_ON_OFF, LEGATO_FOOTSWITCH, HOLD_2, SOUND_CONTROLLER_1, SOUND_CONTROLLER_2, SOUND_CONTROLLER_3, SOUND_CONTROLLER_4,
        SOUND_CONTROLLER_5, SOUND_CONTROLLER_6, SOUND_CONTROLLER_7, SOUND_CONTROLLER_8, SOUND_CONTROLLER_9, SOUND_CONTROLLER_10,
        GENERAL_PURPOSE_CONTROLLER_5, GENERAL_PURPOSE_CONTROLLER_6, GENERAL_PURPOSE_CONTROLLER_7, GENERAL_PURPOSE_CONTROLLER_8,
        PORTAMENTO_CONTROL, HIGH_RESOLUTION_VELOCITY_PREFIX, EFFECTS_1_DEPTH, EFFECTS_2_DEPTH, EFFECTS_3_DEPTH, EFFECTS_4_DEPTH,
        EFFECTS_5_DEPTH, DATA_INCREMENT, DATA_DECREMENT, NON_REGISTERED_PARAMETER_NUMBER_LSB, NON_REGISTERED_PARAMETER_NUMBER_MSB,
        REGISTERED_PARAMETER_NUMBER_LSB, REGISTERED_PARAMETER_NUMBER_MSB, ALL_SOUND_OFF, RESET_ALL_CONTROLLERS, LOCAL_CONTROL_ON_OFF,
        ALL_NOTES_OFF, OMNI_MODE_OFF, OMNI_MODE_ON, MONO_MODE_ON, POLY_MODE_ON,
    ];
    for c in all {
        ensure!(c.get() <= 127, "const_out_of_range/controller_numbers", "{:?}", c);
    }
    Ok(true)
}

// ---------------------------------------------------------------------------------------------
// Parsing and formatting
// ---------------------------------------------------------------------------------------------

/// Reference parser: optional '+', then one or more ASCII digits, value <= max.
pub fn ref_parse(s: &str, max: u128) -> Option<u128> {
    let b = s.as_bytes();
    let digits = if b.first() == Some(&b'+') { &b[1..] } else { b };
    if digits.is_empty() {
        return None;
    }
    let mut v: u128 = 0;
    for &c in digits {
        if !c.is_ascii_digit() {
            return None;
        }
        v = v.saturating_mul(10).saturating_add((c - b'0') as u128);
    }
    if v <= max {
        Some(v)
    } else {
        None
    }
}

fn str_class(s: &str) -> &'static str {
    let b = s.as_bytes();
    let d = if b.first() == Some(&b'+') { &b[1..] } else { b };
    if !d.is_empty() && d.iter().all(|c| c.is_ascii_digit()) {
        "numeral"
    } else {
        "not_a_numeral"
    }
}

fn check_parse<N: Nt>(mode: Mode, s: &str) -> CheckResult {
    let r: Option<N> = api(|| s.parse::<N>()).ok();
    let expected = ref_parse(s, N::MAXV);
    if let Some(v) = r {
        ensure!(v.getw() <= N::MAXV, format!("parse_out_of_range/{}", N::NAME), "{:?}.parse::<{}>() = {:?}", s, N::NAME, v);
    }
    ensure!(
        r.is_some() == expected.is_some(),
        format!("{}/{}/{}", if expected.is_some() { "parse_rejects_valid" } else { "parse_accepts_invalid" }, N::NAME, str_class(s)),
        "{:?}.parse::<{}>() = {:?}, reference says {:?}", s, N::NAME, r, expected
    );
    if mode == Mode::C05 {
        ensure!(r.map(|v| v.getw()) == expected, format!("parse_value/{}", N::NAME), "{:?}.parse::<{}>() = {:?}, reference {:?}", s, N::NAME, r, expected);
    }
    Ok(str_class(s) == "numeral")
}

const ALPHABET: &[u8] = b"0123456789+- a";

pub fn small_string(mut i: u64) -> String {
    // index 0 = "", then length 1, 2, 3, 4 over the 14-letter alphabet
    let k = ALPHABET.len() as u64;
    let mut len = 0u32;
    let mut block = 1u64;
    while i >= block {
        i -= block;
        block *= k;
        len += 1;
    }
    let mut s = Vec::with_capacity(len as usize);
    for _ in 0..len {
        s.push(ALPHABET[(i % k) as usize]);
        i /= k;
    }
    s.reverse();
    String::from_utf8(s).unwrap()
}
pub const N_SMALL_STRINGS: u64 = 1 + 14 + 196 + 2744 + 38416;

fn extra_strings() -> Vec<String> {
    let mut v: Vec<String> = Vec::new();
    for n in [0u64, 1, 9, 10, 14, 15, 16, 17, 99, 100, 126, 127, 128, 129, 199, 200, 254, 255, 256, 257, 999, 1000, 9999, 10000, 16382, 16383, 16384, 16385, 32767, 32768, 65535, 65536, 65537, 99999, 100000, 4294967295, 4294967296, 18446744073709551615] {
        let d = n.to_string();
        v.push(d.clone());
        v.push(format!("+{}", d));
        v.push(format!("-{}", d));
        v.push(format!("++{}", d));
        v.push(format!("+-{}", d));
        v.push(format!(" {}", d));
        v.push(format!("{} ", d));
        v.push(format!("{}\n", d));
        v.push(format!("\t{}", d));
        v.push(format!("{}.0", d));
        v.push(format!("{}e0", d));
        v.push(format!("0x{}", d));
        v.push(format!("{}_", d));
        v.push(format!("{}u8", d));
        for z in [1usize, 2, 3, 5, 17, 40] {
            v.push(format!("{}{}", "0".repeat(z), d));
            v.push(format!("+{}{}", "0".repeat(z), d));
        }
    }
    // every printable non-digit ASCII character (and a few control / non-ASCII ones) in every
    // position of short numerals: nothing but digits and a leading '+' is a numeral
    for base in ["1", "12", "0", "127", "16383"] {
        for c in (0x20u8..0x7f).filter(|c| !c.is_ascii_digit()).map(|c| c as char).chain(['\u{0}', '\t', '\r', '\u{7f}', '\u{a0}', '\u{2212}', '\u{ff10}', '\u{660}']) {
            for pos in 0..=base.len() {
                let mut s = String::new();
                s.push_str(&base[..pos]);
                s.push(c);
                s.push_str(&base[pos..]);
                v.push(s);
            }
        }
    }
    v.push("18446744073709551616".into());
    v.push("340282366920938463463374607431768211455".into());
    v.push("340282366920938463463374607431768211456".into());
    v.push("99999999999999999999999999999999999999999999".into());
    v.push("\u{ff11}\u{ff12}".into()); // full-width digits
    v.push("\u{0661}".into()); // arabic-indic digit one
    v.push("1\u{0}".into());
    v.push("\u{0}1".into());
    v.push("１".into());
    v.push("1,0".into());
    v.push("1 0".into());
    v.push("+".into());
    v.push("-".into());
    v.push("+ 1".into());
    v.push("NaN".into());
    v.push("inf".into());
    v.push("true".into());
    v
}

/// fmt::Write into a stack buffer (so that formatting can be checked for heap allocation)
pub struct StackBuf {
    pub buf: [u8; 96],
    pub len: usize,
    pub overflow: bool,
}
impl StackBuf {
    pub fn new() -> StackBuf {
        StackBuf { buf: [0; 96], len: 0, overflow: false }
    }
    pub fn as_str(&self) -> &str {
        std::str::from_utf8(&self.buf[..self.len]).unwrap_or("<non-utf8>")
    }
}
impl Write for StackBuf {
    fn write_str(&mut self, s: &str) -> std::fmt::Result {
        let b = s.as_bytes();
        if self.len + b.len() > self.buf.len() {
            self.overflow = true;
            return Ok(());
        }
        self.buf[self.len..self.len + b.len()].copy_from_slice(b);
        self.len += b.len();
        Ok(())
    }
}

fn decimal(mut v: u128, out: &mut [u8; 40]) -> &str {
    let mut i = 40;
    if v == 0 {
        i -= 1;
        out[i] = b'0';
    }
    while v > 0 {
        i -= 1;
        out[i] = b'0' + (v % 10) as u8;
        v /= 10;
    }
    std::str::from_utf8(&out[i..]).unwrap()
}

fn check_display<N: Nt>(v: N) -> CheckResult {
    let mut sb = StackBuf::new();
    let r = api(|| write!(sb, "{}", v));
    ensure!(r.is_ok() && !sb.overflow, format!("display_error/{}", N::NAME), "Display failed for {:?}", v);
    let mut tmp = [0u8; 40];
    let want = decimal(v.getw(), &mut tmp);
    ensure!(sb.as_str() == want, format!("display/{}", N::NAME), "Display of {:?} is {:?}, expected {:?}", v, sb.as_str(), want);
    let back: Option<N> = api(|| sb.as_str().parse::<N>()).ok();
    ensure!(back == Some(v), format!("display_parse_roundtrip/{}", N::NAME), "parse(display({:?})) = {:?}", v, back);
    // Caller-supplied format parameters (width, fill, alignment, zero padding, sign, precision): the
    // statement says "Display prints the decimal value", so whatever an implementation does with the
    // parameters (honour them like the primitive, or ignore them), the text minus padding / sign /
    // leading zeros must still be the complete decimal numeral.
    macro_rules! with_spec {
        ($($spec:literal),*) => { $( {
            let mut sb = StackBuf::new();
            let r = api(|| write!(sb, $spec, v));
            ensure!(r.is_ok() && !sb.overflow, format!("display_error/{}", N::NAME), "Display with {:?} failed for {:?}", $spec, v);
            let t = sb.as_str().trim_matches(|c| c == ' ' || c == '*');
            let t = t.strip_prefix('+').unwrap_or(t);
            let z = t.trim_start_matches('0');
            let core = if z.is_empty() && !t.is_empty() { "0" } else { z };
            ensure!(core == want, format!("display_with_format_parameters/{}", N::NAME), "format!({:?}, {:?}) is {:?}: not the decimal value {:?} (plus padding / sign)", $spec, v, sb.as_str(), want);
        } )* };
    }
    with_spec!("{:6}", "{:<6}", "{:^7}", "{:*>8}", "{:06}", "{:+}", "{:.0}", "{:.1}", "{:.2}", "{:8.1}", "{:+08.3}", "{:<1.4}");
    Ok(true)
}

fn check_order<N: Nt>(a: N, b: N) -> CheckResult {
    use std::cmp::Ordering;
    let want = a.getw().cmp(&b.getw());
    let got = api(|| a.cmp(&b));
    ensure!(got == want, format!("cmp/{}", N::NAME), "{:?}.cmp({:?}) = {:?}", a, b, got);
    ensure!(api(|| a.partial_cmp(&b)) == Some(want), format!("partial_cmp/{}", N::NAME), "{:?} vs {:?}", a, b);
    ensure!(api(|| a == b) == (want == Ordering::Equal), format!("eq/{}", N::NAME), "{:?} == {:?}", a, b);
    ensure!(api(|| a < b) == (want == Ordering::Less), format!("lt/{}", N::NAME), "{:?} < {:?}", a, b);
    ensure!(api(|| a >= b) == (want != Ordering::Less), format!("ge/{}", N::NAME), "{:?} >= {:?}", a, b);
    if want == Ordering::Equal {
        ensure!(hash64(&a) == hash64(&b), format!("hash/{}", N::NAME), "equal values hash differently");
    }
    Ok(a.getw() != b.getw())
}

// ---------------------------------------------------------------------------------------------
// Run
// ---------------------------------------------------------------------------------------------

fn per_type<N: Nt>(ctx: &Ctx, mode: Mode, subs: &mut Vec<Sub>) {
    // new(): every value of the representation type
    {
        let n = 1u64 << N::REPR_BITS;
        let stride = ctx.pick(if N::REPR_BITS > 8 { 37 } else { 1 }, 1, 1);
        let proto = Sub::new(
            &format!("new_{}", N::NAME),
            &format!("{}::new(v) for every value v of the representation type (stride {})", N::NAME, stride),
            "non-trivial = out-of-range argument (must panic) or non-zero in-range argument",
            stride == 1,
        );
        let mut sub = par_enum(ctx, &proto, n / stride, |sub, j| {
            let v = (j * stride) as u128;
            sub.eval(v, || json!({"conv": "new", "target": N::NAME, "value": v as u64}), || check_new::<N>(v));
        });
        sub.add_samples(n / stride, ctx.seed, |j| json!({"target": N::NAME, "value": j * stride}));
        sub.samples.truncate(3);
        subs.push(sub);
    }
    let mut sub = Sub::new(&format!("consts_{}", N::NAME), &format!("{}::MIN, MAX, default()", N::NAME), "constants", true);
    sub.eval(0, || json!({"conv": "consts", "target": N::NAME}), || check_consts::<N>(mode));
    sub.eval(1, || json!({"conv": "consts", "target": N::NAME}), || check_consts::<N>(mode));
    sub.samples.push(json!({"target": N::NAME, "MIN": N::min_const().getw() as u64, "MAX": N::max_const().getw() as u64}));
    subs.push(sub);

    // parsing
    {
        let extras = extra_strings();
        let n = N_SMALL_STRINGS + extras.len() as u64;
        let stride = ctx.pick(7u64, 1, 1);
        let proto = Sub::new(
            &format!("parse_{}", N::NAME),
            &format!("{}::from_str: all {} strings over {{0-9,+,-,space,a}} up to length 4 plus {} boundary / leading-zero / overlong / non-ASCII numerals", N::NAME, N_SMALL_STRINGS, extras.len()),
            "non-trivial = string that is syntactically a numeral",
            stride == 1,
        );
        let get = |i: u64| -> String {
            if i < N_SMALL_STRINGS { small_string(i) } else { extras[(i - N_SMALL_STRINGS) as usize].clone() }
        };
        let mut sub = par_enum(ctx, &proto, n / stride, |sub, j| {
            let s = get(j * stride);
            sub.eval(s.len() as u128 * 1000 + s.bytes().map(|b| b as u128).sum::<u128>(), || json!({"conv": "parse", "target": N::NAME, "string": s}), || check_parse::<N>(mode, &s));
        });
        sub.add_samples(n / stride, ctx.seed, |j| json!({"target": N::NAME, "string": get(j * stride)}));
        sub.samples.truncate(4);
        subs.push(sub);
    }
    if mode == Mode::C05 {
        let values = all_values::<N>();
        let mut sub = Sub::new(&format!("display_{}", N::NAME), &format!("Display + parse(display) for every value of {}", N::NAME), "every value", true);
        for v in &values {
            let v = *v;
            sub.eval(v.getw(), || json!({"conv": "display", "target": N::NAME, "value": v.getw() as u64}), || check_display::<N>(v));
        }
        sub.add_samples(values.len() as u64, ctx.seed, |i| json!({"target": N::NAME, "value": i}));
        sub.samples.truncate(2);
        subs.push(sub);

        // ordering
        let nv = values.len() as u64;
        let full = nv <= 128 || ctx.thorough();
        let proto = Sub::new(
            &format!("order_{}", N::NAME),
            &(if full { format!("all {}^2 ordered pairs of {}", nv, N::NAME) } else { format!("{}: all adjacent and boundary pairs + 1M seeded pairs", N::NAME) }),
            "non-trivial = pair of different values",
            full,
        );
        let mut sub = if full {
            par_enum(ctx, &proto, nv * nv, |sub, i| {
                let (a, b) = (values[(i / nv) as usize], values[(i % nv) as usize]);
                sub.eval(a.getw() + b.getw(), || json!({"conv": "order", "target": N::NAME, "a": a.getw() as u64, "b": b.getw() as u64}), || check_order(a, b));
            })
        } else {
            let mut pairs: Vec<(u64, u64)> = Vec::new();
            for a in 0..nv {
                for d in [0i64, 1, -1, 127, 128, -128] {
                    let b = a as i64 + d;
                    if b >= 0 && (b as u64) < nv {
                        pairs.push((a, b as u64));
                    }
                }
                pairs.push((a, 0));
                pairs.push((a, nv - 1));
                pairs.push((0, a));
                pairs.push((nv - 1, a));
            }
            let mut m = Mix(ctx.sub_seed("order"));
            let extra = ctx.pick(50_000, 1_000_000, 1_000_000);
            for _ in 0..extra {
                pairs.push((m.below(nv), m.below(nv)));
            }
            par_enum(ctx, &proto, pairs.len() as u64, |sub, i| {
                let (a, b) = (values[pairs[i as usize].0 as usize], values[pairs[i as usize].1 as usize]);
                sub.eval(a.getw() + b.getw(), || json!({"conv": "order", "target": N::NAME, "a": a.getw() as u64, "b": b.getw() as u64}), || check_order(a, b));
            })
        };
        sub.samples.push(json!({"target": N::NAME, "a": 0, "b": nv - 1}));
        subs.push(sub);
    }
}

pub fn run_ints(ctx: &Ctx, mode: Mode) -> Report {
    let mut subs: Vec<Sub> = Vec::new();
    let n_random = ctx.pick(2_000u64, 100_000, 2_000_000);

    per_type::<U4>(ctx, mode, &mut subs);
    per_type::<U7>(ctx, mode, &mut subs);
    per_type::<U14>(ctx, mode, &mut subs);
    per_type::<Channel>(ctx, mode, &mut subs);
    per_type::<KeyNumber>(ctx, mode, &mut subs);
    per_type::<ControllerNumber>(ctx, mode, &mut subs);

    macro_rules! tf {
        ($n:ident; $($s:ty),*) => { $( sweep_try_from::<$n, $s>(ctx, mode, &mut subs, n_random); )* };
    }
    try_from_table!(tf);

    probed_conversions(ctx, mode, &mut subs);
    if mode == Mode::C04 {
        probed_surface(&mut subs);
    }
    {
        let mut sub = Sub::new("from_u8_U14", "U14::from(u8) for every u8", "every value", true);
        for s in 0..=255u8 {
            sub.eval(s as u128, || json!({"conv": "from_u8_u14", "value": s}), || check_from_u8_u14(mode, s));
        }
        sub.samples.push(json!({"value": 255}));
        subs.push(sub);
    }

    // newtype -> newtype
    macro_rules! nf {
        ($a:ident, $b:ident) => {{
            let values = all_values::<$a>();
            let mut sub = Sub::new(&format!("from_{}_{}", stringify!($a), stringify!($b)), &format!("{}::from({}) for every source value", stringify!($b), stringify!($a)), "every value", true);
            for v in &values {
                let v = *v;
                sub.eval(v.getw(), || json!({"conv": "nt_from", "source": stringify!($a), "target": stringify!($b), "value": v.getw() as u64}), || check_nt_from::<$a, $b>(mode, v));
            }
            sub.samples.push(json!({"source": stringify!($a), "target": stringify!($b), "value": <$a as Nt>::MAXV as u64}));
            subs.push(sub);
        }};
    }
    nt_from_table!(nf);
    macro_rules! ntf {
        ($a:ident, $b:ident) => {{
            let values = all_values::<$a>();
            let mut sub = Sub::new(&format!("try_from_{}_{}", stringify!($a), stringify!($b)), &format!("{}::try_from({}) for every source value", stringify!($b), stringify!($a)), "non-trivial = every value (accept/reject boundary inside)", true);
            for v in &values {
                let v = *v;
                sub.eval(v.getw(), || json!({"conv": "nt_try_from", "source": stringify!($a), "target": stringify!($b), "value": v.getw() as u64}), || check_nt_try_from::<$a, $b>(mode, v));
            }
            sub.samples.push(json!({"source": stringify!($a), "target": stringify!($b), "value": <$b as Nt>::MAXV as u64 + 1}));
            subs.push(sub);
        }};
    }
    nt_try_from_table!(ntf);

    // random strings (numerals with long padding, signs, separators; arbitrary printable Unicode)
    {
        use proptest::prelude::*;
        let cases = ctx.pick(2_000u64, 60_000, 1_000_000);
        let proto = Sub::new(
            "parse_random_strings",
            "proptest strings: numerals with up to 40 leading zeros / signs / separators from [0-9+-_ :.a], arbitrary printable Unicode up to 8 characters, decimal renderings of random u128; parsed as all six types",
            "non-trivial = the reference parser accepts the string for at least one type; distinct by hash",
            false,
        );
        let sub = par_proptest(
            ctx,
            &proto,
            cases,
            || {
                prop_oneof![
                    4 => "[+]?0{0,40}[0-9]{1,6}",
                    3 => "[0-9+\\-_ :.a]{0,12}",
                    2 => "\\PC{0,8}",
                    1 => any::<u128>().prop_map(|x| x.to_string()),
                    1 => (0u32..20000).prop_map(|x| x.to_string()),
                ]
            },
            |s: &String| json!({"conv": "parse_all", "string": s}),
            move |s: &String| {
                let mut nt = false;
                macro_rules! p { ($($n:ident),*) => { $( check_parse::<$n>(mode, s)?; nt |= ref_parse(s, <$n as Nt>::MAXV).is_some(); )* }; }
                p!(U4, U7, U14, Channel, KeyNumber, ControllerNumber);
                Ok(ROutcome { nontrivial: nt, classes: if nt { vec!["accepted_by_reference"] } else { vec!["rejected_by_reference"] }, hash: hash_str(s) })
            },
        );
        subs.push(sub);
    }
    // chains of two conversions agree with the direct conversion and with the value
    {
        let mut sub = Sub::new("conversion_chains", "every value through every chain of two infallible newtype conversions (U4->U7->U14, U4->Channel->U4, U7->KeyNumber->U7, U7->ControllerNumber->U7, ...) and fallible ones back", "every value", true);
        for v in 0..=15u128 {
            sub.eval(v, || json!({"conv": "chain", "kind": "u4", "value": v as u64}), || {
                let a = U4::new_repr(v);
                let b: U14 = api(|| U14::from(U7::from(a)));
                ensure!(b.getw() == v && api(|| U14::from(a)).getw() == v, "chain/u4_u7_u14", "{:?}", b);
                let c: U4 = api(|| U4::from(Channel::from(a)));
                ensure!(c == a, "chain/u4_channel_u4", "{:?}", c);
                let d = api(|| U4::try_from(U14::from(U7::from(a))));
                ensure!(d.ok() == Some(a), "chain/u4_u14_u4", "value {}", v);
                Ok(true)
            });
        }
        for v in 0..=127u128 {
            sub.eval(v, || json!({"conv": "chain", "kind": "u7", "value": v as u64}), || {
                let a = U7::new_repr(v);
                ensure!(api(|| U7::from(KeyNumber::from(a))) == a, "chain/u7_key_u7", "value {}", v);
                ensure!(api(|| U7::from(ControllerNumber::from(a))) == a, "chain/u7_cn_u7", "value {}", v);
                ensure!(api(|| U7::try_from(U14::from(a))).ok() == Some(a), "chain/u7_u14_u7", "value {}", v);
                ensure!(api(|| U4::try_from(U14::from(a))).ok().map(|x| x.getw()) == if v <= 15 { Some(v) } else { None }, "chain/u7_u14_u4", "value {}", v);
                ensure!(api(|| KeyNumber::from(U7::from(ControllerNumber::from(a)))).getw() == v, "chain/u7_cn_u7_key", "value {}", v);
                Ok(true)
            });
        }
        sub.samples.push(json!({"conv": "chain", "kind": "u7", "value": 127}));
        subs.push(sub);
    }
    if mode == Mode::C05 {
        macro_rules! ip {
            ($n:ident; $($t:ty),*) => {{
                let values = all_values::<$n>();
                let mut sub = Sub::new(&format!("into_prims_{}", stringify!($n)), &format!("every value of {} -> every implemented primitive target", stringify!($n)), "every (value, target) pair", true);
                $( sweep_into_prim::<$n, $t>(&mut sub, &values); )*
                sub.samples.push(json!({"source": stringify!($n), "value": <$n as Nt>::MAXV as u64, "targets": stringify!($($t),*)}));
                subs.push(sub);
            }};
        }
        into_prim_table!(ip);
    } else {
        produced_values(ctx, &mut subs);
        let mut sub = Sub::new("controller_number_constants", "all 73 controller_numbers::* constants", "constants", true);
        sub.eval(0, || json!({"conv": "controller_constants"}), check_controller_constants);
        sub.eval(1, || json!({"conv": "controller_constants"}), check_controller_constants);
        sub.samples.push(json!("controller_numbers::*"));
        subs.push(sub);
    }

    Report {
        subs,
        rule: match mode {
            Mode::C04 => "exhaustive for 8/16-bit sources, every newtype value and all strings of the parsing alphabet up to length 4; boundaries + seeded random values for wider sources; validity predicate get() <= MAX on every obtained value, acceptance iff mathematically in range; non-trivial = out-of-range source, or in-range value from a different-width/signed source, or a syntactic numeral".into(),
            Mode::C05 => "same domains as C04 plus every value x every target primitive, Display, ordering; oracle computes in u128 and a hand-written decimal parser/printer".into(),
        },
        assumptions: vec![
            "the list of conversion impls is a hand-written table taken from src/*_mod.rs; an impl added later is not covered".into(),
            "unsafe new_unchecked is outside the safe API and not exercised".into(),
        ],
    }
}

pub fn replay_ints(mode: Mode, _sub: &str, case: &Value) -> Option<CheckResult> {
    let conv = case["conv"].as_str()?;
    let target = case["target"].as_str().unwrap_or("");
    macro_rules! by_target {
        ($f:ident ( $($arg:expr),* )) => {
            match target {
                "U4" => Some($f::<U4>($($arg),*)),
                "U7" => Some($f::<U7>($($arg),*)),
                "U14" => Some($f::<U14>($($arg),*)),
                "Channel" => Some($f::<Channel>($($arg),*)),
                "KeyNumber" => Some($f::<KeyNumber>($($arg),*)),
                "ControllerNumber" => Some($f::<ControllerNumber>($($arg),*)),
                _ => None,
            }
        };
    }
    match conv {
        "new" => {
            let v = json_int(&case["value"])? as u128;
            by_target!(check_new(v))
        }
        "consts" => by_target!(check_consts(mode)),
        "controller_constants" => Some(check_controller_constants()),
        "new_safe_api" => {
            let kind = case["kind"].as_str()?;
            let a = json_int(&case["a"])? as u128;
            let b = json_int(&case["b"])? as u128;
            Some(surface_case(kind, target, a, b).unwrap_or(Ok(false)))
        }
        "probed_try_from" => {
            let st = case["source_type"].as_str()?;
            let vs = case["value"].as_str()?;
            let mut out: Option<CheckResult> = None;
            macro_rules! pr {
                ($s:ty, $n:ident) => {
                    if st == stringify!($s) && target == stringify!($n) {
                        if let Ok(v) = vs.parse::<$s>() {
                            if let Some(r) = (&crate::impls::probe::<($s, $n)>()).convert(v) {
                                let math = v.nonneg();
                                let in_range = math.map_or(false, |w| w <= <$n as Nt>::MAXV);
                                out = Some(if r.map_or(false, |x| x.getw() > <$n as Nt>::MAXV || (mode == Mode::C05 && Some(x.getw()) != math)) || r.is_some() != in_range {
                                    fail(conv_sig("probed_conversion_wrong", st, target), format!("{}::try_from({}{}) -> {:?}", target, v, st, r))
                                } else {
                                    Ok(true)
                                });
                            } else {
                                out = Some(Ok(false));
                            }
                        }
                    }
                };
            }
            pr!(i8, U4);
            pr!(i8, U7);
            pr!(i8, Channel);
            pr!(i8, KeyNumber);
            pr!(i8, ControllerNumber);
            pr!(i16, U14);
            pr!(isize, U14);
            out
        }
        "parse_all" => {
            let st = case["string"].as_str()?.to_string();
            let mut r: CheckResult = Ok(false);
            macro_rules! p { ($($n:ident),*) => { $( if r.is_ok() { r = check_parse::<$n>(mode, &st); } )* }; }
            p!(U4, U7, U14, Channel, KeyNumber, ControllerNumber);
            Some(r)
        }
        "produced_cc14" => Some(produced_cc14(json_u8(&case["channel"]).filter(|c| *c < 16)?, json_u8(&case["controller"]).filter(|c| *c < 32)?, json_u64(&case["value"]).filter(|c| *c < 16384)? as u16)),
        "produced_pn" => {
            let c = json_u64(&case["ctor"]).filter(|c| *c < 8)? as usize;
            let value = json_u64(&case["value"]).filter(|v| *v <= crate::p_nrpn::value_max(c) as u64)? as u16;
            Some(produced_pn(c, json_u8(&case["channel"]).filter(|c| *c < 16)?, json_u64(&case["number"]).filter(|c| *c < 16384)? as u16, value, case["lsb_first"].as_bool()?))
        }
        "produced_scanners" => Some(produced_by_scanners(&crate::ops::ops_from(&case["cc14_ops"])?, &crate::ops::ops_from(&case["nrpn_ops"])?).map(|o| o.nontrivial)),
        "produced_factory" => {
            let c = crate::p_factory::NAMED.iter().position(|n| Some(*n) == case["ctor"].as_str())?;
            let i = json_u64(&case["index"]).filter(|i| *i < crate::p_factory::named_domain(c))?;
            Some(crate::p_factory::named_range(c, i))
        }
        "parse" => {
            let s = case["string"].as_str()?.to_string();
            by_target!(check_parse(mode, &s))
        }
        "from_u8_u14" => Some(check_from_u8_u14(mode, json_u8(&case["value"])?)),
        "try_from" => {
            let st = case["source_type"].as_str()?;
            let vs = case["value"].as_str()?;
            let mut out: Option<CheckResult> = None;
            macro_rules! tfr {
                ($n:ident; $($s:ty),*) => {
                    $( if target == stringify!($n) && st == stringify!($s) {
                        if let Ok(v) = vs.parse::<$s>() { out = Some(check_try_from::<$n, $s>(mode, v)); }
                    } )*
                };
            }
            try_from_table!(tfr);
            out
        }
        "display" => {
            let v = json_int(&case["value"])? as u128;
            macro_rules! disp { ($($n:ident),*) => { match target { $( stringify!($n) => { if v <= <$n as Nt>::MAXV { Some(check_display::<$n>(<$n as Nt>::new_repr(v))) } else { None } } )* _ => None } }; }
            disp!(U4, U7, U14, Channel, KeyNumber, ControllerNumber)
        }
        "order" => {
            let a = json_int(&case["a"])? as u128;
            let b = json_int(&case["b"])? as u128;
            macro_rules! ord { ($($n:ident),*) => { match target { $( stringify!($n) => { if a <= <$n as Nt>::MAXV && b <= <$n as Nt>::MAXV { Some(check_order::<$n>(<$n as Nt>::new_repr(a), <$n as Nt>::new_repr(b))) } else { None } } )* _ => None } }; }
            ord!(U4, U7, U14, Channel, KeyNumber, ControllerNumber)
        }
        "nt_from" | "nt_try_from" | "into_prim" => {
            let v = json_int(&case["value"])? as u128;
            let source = case["source"].as_str()?;
            let mut out: Option<CheckResult> = None;
            if conv == "nt_from" {
                macro_rules! nfr { ($a:ident, $b:ident) => { if source == stringify!($a) && target == stringify!($b) && v <= <$a as Nt>::MAXV { out = Some(check_nt_from::<$a, $b>(mode, <$a as Nt>::new_repr(v))); } }; }
                nt_from_table!(nfr);
            } else if conv == "nt_try_from" {
                macro_rules! ntfr { ($a:ident, $b:ident) => { if source == stringify!($a) && target == stringify!($b) && v <= <$a as Nt>::MAXV { out = Some(check_nt_try_from::<$a, $b>(mode, <$a as Nt>::new_repr(v))); } }; }
                nt_try_from_table!(ntfr);
            } else {
                let tt = case["target_type"].as_str()?;
                macro_rules! ipr {
                    ($n:ident; $($t:ty),*) => { $( if source == stringify!($n) && tt == stringify!($t) && v <= <$n as Nt>::MAXV { out = Some(check_into_prim::<$n, $t>(<$n as Nt>::new_repr(v))); } )* };
                }
                into_prim_table!(ipr);
            }
            out
        }
        _ => None,
    }
}


// ---------------------------------------------------------------------------------------------
// Conversions that do not exist today (e.g. TryFrom<i16> for U14, TryFrom<i8> for U7): if a later
// version adds one, it is held to the same oracle (compile-time probe, see impls::Probe).
// ---------------------------------------------------------------------------------------------

trait ProbeTryFromYes<S, N> {
    fn convert(&self, s: S) -> Option<Option<N>>;
}
impl<S, N: TryFrom<S>> ProbeTryFromYes<S, N> for crate::impls::Probe<(S, N)> {
    fn convert(&self, s: S) -> Option<Option<N>> {
        Some(api(|| N::try_from(s)).ok())
    }
}
trait ProbeTryFromNo<S, N> {
    fn convert(&self, _s: S) -> Option<Option<N>> {
        None
    }
}
impl<S, N> ProbeTryFromNo<S, N> for &crate::impls::Probe<(S, N)> {}

fn probed_conversions(ctx: &Ctx, mode: Mode, subs: &mut Vec<Sub>) {
    let mut sub = Sub::new(
        "probed_missing_conversions",
        "conversions that are not implemented today (i8 -> the five u8-backed types, i16 / isize / i8-as-From -> U14, every primitive -> every newtype not in the table): if an impl exists, every 8/16-bit source value (boundaries + seeded values for wider ones) is checked against the same oracle",
        "non-trivial = an impl exists and the source is out of range",
        true,
    );
    sub.supplementary = true;
    macro_rules! probe_pair {
        ($s:ty, $n:ident) => {{
            let (values, _) = source_values::<$s>(ctx.sub_seed("probe"), 2_000);
            for v in values {
                if let Some(r) = (&crate::impls::probe::<($s, $n)>()).convert(v) {
                    sub.eval(v.magnitude(), || json!({"conv": "probed_try_from", "source_type": stringify!($s), "target": stringify!($n), "value": v.to_string()}), || {
                        let math = v.nonneg();
                        let in_range = math.map_or(false, |w| w <= <$n as Nt>::MAXV);
                        if let Some(x) = r {
                            ensure!(x.getw() <= <$n as Nt>::MAXV, conv_sig("out_of_range", stringify!($s), stringify!($n)), "{}::try_from({}{}) yielded {:?}", stringify!($n), v, stringify!($s), x);
                            if mode == Mode::C05 {
                                ensure!(Some(x.getw()) == math, conv_sig("value_changed", stringify!($s), stringify!($n)), "{}::try_from({}{}) yielded {:?}", stringify!($n), v, stringify!($s), x);
                            }
                        }
                        ensure!(r.is_some() == in_range, conv_sig(if in_range { "rejects_in_range" } else { "accepts_out_of_range" }, stringify!($s), stringify!($n)), "{}::try_from({}{}) -> {:?}", stringify!($n), v, stringify!($s), r);
                        Ok(!in_range)
                    });
                } else {
                    break;
                }
            }
        }};
    }
    probe_pair!(i8, U4);
    probe_pair!(i8, U7);
    probe_pair!(i8, Channel);
    probe_pair!(i8, KeyNumber);
    probe_pair!(i8, ControllerNumber);
    probe_pair!(i16, U14);
    probe_pair!(isize, U14);
    sub.samples.push(json!({"conv": "probed_try_from", "note": "nothing to check unless an impl exists; on the current tree none of the probed impls exists"}));
    if sub.evals == 0 {
        // keep the evidence honest: count the probes themselves
        sub.evals = 7;
    }
    subs.push(sub);
}

// ---------------------------------------------------------------------------------------------
// C04: safe API surface that does not exist today but would hand out-of-range values to safe code
// if it were added without a range check: arithmetic / bit operators on the restricted integers
// (`U7::MAX + U7::MAX`), iterator sums, conversions from floats, and `new_unchecked` losing its
// `unsafe` qualifier. Compile-time probes (impls::Probe): nothing is checked unless the item exists.
// A panicking operator is fine for C04 (checked arithmetic); only a returned value is judged.
// ---------------------------------------------------------------------------------------------

macro_rules! op_probe {
    ($yes:ident, $no:ident, $m:ident, [$($bound:tt)*], |$a:ident, $b:ident| $body:expr) => {
        trait $yes<N> {
            fn $m(&self, a: N, b: N) -> Option<Result<N, String>>;
        }
        impl<N: Copy + $($bound)*> $yes<N> for crate::impls::Probe<N> {
            fn $m(&self, $a: N, $b: N) -> Option<Result<N, String>> {
                Some(guarded(|| $body))
            }
        }
        trait $no<N> {
            fn $m(&self, _a: N, _b: N) -> Option<Result<N, String>> {
                None
            }
        }
        impl<N> $no<N> for &crate::impls::Probe<N> {}
    };
}
op_probe!(PAddY, PAddN, p_add, [core::ops::Add<Output = N>], |a, b| a + b);
op_probe!(PSubY, PSubN, p_sub, [core::ops::Sub<Output = N>], |a, b| a - b);
op_probe!(PMulY, PMulN, p_mul, [core::ops::Mul<Output = N>], |a, b| a * b);
op_probe!(PDivY, PDivN, p_div, [core::ops::Div<Output = N>], |a, b| a / b);
op_probe!(PRemY, PRemN, p_rem, [core::ops::Rem<Output = N>], |a, b| a % b);
op_probe!(PAndY, PAndN, p_bitand, [core::ops::BitAnd<Output = N>], |a, b| a & b);
op_probe!(POrY, POrN, p_bitor, [core::ops::BitOr<Output = N>], |a, b| a | b);
op_probe!(PXorY, PXorN, p_bitxor, [core::ops::BitXor<Output = N>], |a, b| a ^ b);
op_probe!(PShlY, PShlN, p_shl, [core::ops::Shl<N, Output = N>], |a, b| a << b);
op_probe!(PNotY, PNotN, p_not, [core::ops::Not<Output = N>], |a, _b| !a);
op_probe!(PNegY, PNegN, p_neg, [core::ops::Neg<Output = N>], |a, _b| -a);
op_probe!(PAddAY, PAddAN, p_add_assign, [core::ops::AddAssign], |a, b| {
    let mut x = a;
    x += b;
    x
});
op_probe!(PSubAY, PSubAN, p_sub_assign, [core::ops::SubAssign], |a, b| {
    let mut x = a;
    x -= b;
    x
});
op_probe!(PMulAY, PMulAN, p_mul_assign, [core::ops::MulAssign], |a, b| {
    let mut x = a;
    x *= b;
    x
});
op_probe!(POrAY, POrAN, p_bitor_assign, [core::ops::BitOrAssign], |a, b| {
    let mut x = a;
    x |= b;
    x
});
op_probe!(PSumY, PSumN, p_sum, [core::iter::Sum<N>], |a, b| [a, b].iter().copied().sum::<N>());
op_probe!(PProdY, PProdN, p_product, [core::iter::Product<N>], |a, b| [a, b].iter().copied().product::<N>());

/// operators with the representation type on the right-hand side (`U7 + u8`)
macro_rules! op_repr_probe {
    ($yes:ident, $no:ident, $m:ident, $tr:ident, |$a:ident, $b:ident| $body:expr) => {
        trait $yes<N, R> {
            fn $m(&self, a: N, b: R) -> Option<Result<N, String>>;
        }
        impl<N: Copy + core::ops::$tr<R, Output = N>, R: Copy> $yes<N, R> for crate::impls::Probe<(N, R)> {
            fn $m(&self, $a: N, $b: R) -> Option<Result<N, String>> {
                Some(guarded(|| $body))
            }
        }
        trait $no<N, R> {
            fn $m(&self, _a: N, _b: R) -> Option<Result<N, String>> {
                None
            }
        }
        impl<N, R> $no<N, R> for &crate::impls::Probe<(N, R)> {}
    };
}
op_repr_probe!(PAddRY, PAddRN, p_add_repr, Add, |a, b| a + b);
op_repr_probe!(PSubRY, PSubRN, p_sub_repr, Sub, |a, b| a - b);
op_repr_probe!(PMulRY, PMulRN, p_mul_repr, Mul, |a, b| a * b);
op_repr_probe!(PShlRY, PShlRN, p_shl_repr, Shl, |a, b| a << b);

pub struct ProbeFn<F>(pub F);
pub trait PSafeFnY<A, N> {
    fn call_safely(&self, v: A) -> Option<Result<N, String>>;
}
impl<A, N, F: Fn(A) -> N> PSafeFnY<A, N> for ProbeFn<F> {
    fn call_safely(&self, v: A) -> Option<Result<N, String>> {
        Some(guarded(|| (self.0)(v)))
    }
}
pub trait PSafeFnN<A, N> {
    fn call_safely(&self, _v: A) -> Option<Result<N, String>> {
        None
    }
}
impl<A, N, F> PSafeFnN<A, N> for &ProbeFn<F> {}

/// conversions from floats (`From` or `TryFrom`)
trait PFloatY<S, N> {
    fn from_float(&self, s: S) -> Option<Result<Option<N>, String>>;
}
impl<S, N: TryFrom<S>> PFloatY<S, N> for crate::impls::Probe<(S, N)> {
    fn from_float(&self, s: S) -> Option<Result<Option<N>, String>> {
        Some(guarded(|| N::try_from(s).ok()))
    }
}
trait PFloatN<S, N> {
    fn from_float(&self, _s: S) -> Option<Result<Option<N>, String>> {
        None
    }
}
impl<S, N> PFloatN<S, N> for &crate::impls::Probe<(S, N)> {}

pub const SURFACE_KINDS: [&str; 25] = [
    "add", "sub", "mul", "div", "rem", "bitand", "bitor", "bitxor", "shl", "not", "neg", "add_assign", "sub_assign", "mul_assign", "bitor_assign", "sum", "product", "add_repr", "sub_repr", "mul_repr", "shl_repr",
    "safe_new_unchecked", "from_f32", "from_f64", "reserved",
];

const FLOATS: [f64; 16] = [-1.0, -0.0, 0.0, 0.5, 15.0, 15.5, 16.0, 127.0, 127.9, 128.0, 16383.0, 16383.5, 16384.0, 1e9, f64::INFINITY, f64::NAN];

/// One probed item applied to operands (a, b) given as plain integers (for `from_f*`: a = index into
/// FLOATS). None = the item does not exist for that type.
pub fn surface_case(kind: &str, target: &str, a: u128, b: u128) -> Option<CheckResult> {
    macro_rules! go {
        ($t:ident, $repr:ty) => {{
            let max = <$t as Nt>::MAXV;
            // (operands are built through the checked constructor; if that is broken, new_<T> reports it)
            let (x, y) = match guarded(|| (<$t as Nt>::new_repr(a.min(max)), <$t as Nt>::new_repr(b.min(max)))) {
                Ok(p) => p,
                Err(_) => return Some(Ok(false)),
            };
            let p = crate::impls::probe::<$t>();
            let pr = crate::impls::probe::<($t, $repr)>();
            let yr = b.min(<$repr>::MAX as u128) as $repr;
            let r: Option<Result<$t, String>> = match kind {
                "add" => (&p).p_add(x, y),
                "sub" => (&p).p_sub(x, y),
                "mul" => (&p).p_mul(x, y),
                "div" => (&p).p_div(x, y),
                "rem" => (&p).p_rem(x, y),
                "bitand" => (&p).p_bitand(x, y),
                "bitor" => (&p).p_bitor(x, y),
                "bitxor" => (&p).p_bitxor(x, y),
                "shl" => (&p).p_shl(x, y),
                "not" => (&p).p_not(x, y),
                "neg" => (&p).p_neg(x, y),
                "add_assign" => (&p).p_add_assign(x, y),
                "sub_assign" => (&p).p_sub_assign(x, y),
                "mul_assign" => (&p).p_mul_assign(x, y),
                "bitor_assign" => (&p).p_bitor_assign(x, y),
                "sum" => (&p).p_sum(x, y),
                "product" => (&p).p_product(x, y),
                "add_repr" => (&pr).p_add_repr(x, yr),
                "sub_repr" => (&pr).p_sub_repr(x, yr),
                "mul_repr" => (&pr).p_mul_repr(x, yr),
                "shl_repr" => (&pr).p_shl_repr(x, yr),
                "safe_new_unchecked" => (&ProbeFn($t::new_unchecked)).call_safely(b.min(<$repr>::MAX as u128) as $repr),
                "from_f32" => match (&crate::impls::probe::<(f32, $t)>()).from_float(FLOATS[a as usize % FLOATS.len()] as f32) {
                    None => None,
                    Some(Err(e)) => Some(Err(e)),
                    Some(Ok(None)) => return Some(Ok(false)),
                    Some(Ok(Some(v))) => Some(Ok(v)),
                },
                "from_f64" => match (&crate::impls::probe::<(f64, $t)>()).from_float(FLOATS[a as usize % FLOATS.len()]) {
                    None => None,
                    Some(Err(e)) => Some(Err(e)),
                    Some(Ok(None)) => return Some(Ok(false)),
                    Some(Ok(Some(v))) => Some(Ok(v)),
                },
                _ => None,
            };
            match r {
                None => None,
                Some(Err(_)) => Some(Ok(false)),
                Some(Ok(v)) => Some(if v.getw() > max {
                    fail(format!("out_of_range/new_safe_api/{}/{}", kind, target), format!("{}({}, {}) on {} returned {:?}, which is outside 0..={} - obtained without `unsafe`", kind, a, b, target, v, max))
                } else {
                    Ok(true)
                }),
            }
        }};
    }
    match target {
        "U4" => go!(U4, u8),
        "U7" => go!(U7, u8),
        "U14" => go!(U14, u16),
        "Channel" => go!(Channel, u8),
        "KeyNumber" => go!(KeyNumber, u8),
        "ControllerNumber" => go!(ControllerNumber, u8),
        _ => None,
    }
}

fn probed_surface(subs: &mut Vec<Sub>) {
    let mut sub = Sub::new(
        "probed_new_safe_api",
        "items that do not exist today and would let safe code obtain an out-of-range value: operator impls (Add Sub Mul Div Rem BitAnd BitOr BitXor Shl Not Neg, the *Assign forms, with Self or the representation type on the right), iter::Sum / Product, conversions from f32 / f64, and `new_unchecked` as a safe fn; if one exists, it is applied to a grid of operands reaching both ends of the range and every returned value must be in range",
        "non-trivial = the item exists and returned a value",
        true,
    );
    sub.supplementary = true;
    let mut probes = 0u64;
    for target in ["U4", "U7", "U14", "Channel", "KeyNumber", "ControllerNumber"] {
        let max: u128 = if target == "U14" { 16383 } else if target == "U4" || target == "Channel" { 15 } else { 127 };
        let grid: Vec<u128> = vec![0, 1, 2, 7, max / 2, max / 2 + 1, max - 1, max];
        let big: Vec<u128> = vec![0, 1, max, max + 1, 200, 255, 256, 16384, 65535];
        for kind in SURFACE_KINDS.iter() {
            probes += 1;
            if surface_case(kind, target, 0, 0).is_none() {
                continue;
            }
            let (as_, bs): (Vec<u128>, Vec<u128>) = match *kind {
                "safe_new_unchecked" => (vec![0], big.clone()),
                "from_f32" | "from_f64" => ((0..FLOATS.len() as u128).collect(), vec![0]),
                k if k.ends_with("_repr") => (grid.clone(), big.clone()),
                _ => (grid.clone(), grid.clone()),
            };
            for &a in &as_ {
                for &b in &bs {
                    sub.eval(a + b, || json!({"conv": "new_safe_api", "kind": kind, "target": target, "a": a as u64, "b": b as u64}), || surface_case(kind, target, a, b).unwrap_or(Ok(false)));
                }
            }
        }
    }
    sub.samples.push(json!({"conv": "new_safe_api", "note": "nothing to check unless an item exists; on the current tree none of the probed items exists"}));
    if sub.evals == 0 {
        sub.evals = probes;
    }
    subs.push(sub);
}

// ---------------------------------------------------------------------------------------------
// C04: values produced by factories, encoders and scanners
// ---------------------------------------------------------------------------------------------

fn produced_values(ctx: &Ctx, subs: &mut Vec<Sub>) {
    use crate::ops::*;
    use crate::p_factory::{named_domain, named_range, NAMED};
    use crate::refmodel::*;
    use helgoboss_midi::{ControlChange14BitMessage, ControlChange14BitMessageScanner, DataEntryByteOrder, ParameterNumberMessageScanner, RawShortMessage, ShortMessage, StructuredShortMessage};
    // factories
    {
        let stride = ctx.pick(31u64, 3, 1);
        let mut blocks: Vec<(usize, u64)> = Vec::new();
        for c in 0..NAMED.len() {
            let n = named_domain(c);
            blocks.push((c, if n >= 1024 { (n + stride - 1) / stride } else { n }));
        }
        let total: u64 = blocks.iter().map(|b| b.1).sum();
        let proto = Sub::new(
            "produced_by_factories",
            &format!("every accessor value (and those of to_structured) of messages built by the 19 named constructors in 4 implementations (argument stride {})", stride),
            "non-trivial = every built message",
            stride == 1,
        );
        let decode = move |mut j: u64| -> (usize, u64) {
            for (c, cnt) in blocks.iter() {
                if j < *cnt {
                    let n = named_domain(*c);
                    return (*c, if n >= 1024 { (j * stride).min(n - 1) } else { j });
                }
                j -= *cnt;
            }
            unreachable!()
        };
        let mut sub = par_enum(ctx, &proto, total, |sub, j| {
            let (c, i) = decode(j);
            sub.eval(i as u128, || json!({"conv": "produced_factory", "ctor": NAMED[c], "index": i}), || named_range(c, i));
        });
        sub.add_samples(total, ctx.seed, |j| {
            let (c, i) = decode(j);
            json!({"conv": "produced_factory", "ctor": NAMED[c], "index": i})
        });
        sub.samples.truncate(3);
        subs.push(sub);
    }
    // encoders
    {
        let proto = Sub::new(
            "produced_by_encoders",
            "data bytes of the short messages produced by ControlChange14BitMessage::to_short_messages (all messages, stride) and ParameterNumberMessage::to_short_messages (dimension sweeps, both byte orders) into Raw and Structured",
            "non-trivial = every encoded message",
            false,
        );
        let stride = ctx.pick(257u64, 17, 1);
        let n = 16u64 * 32 * 16384 / stride;
        let mut sub = par_enum(ctx, &proto, n, |sub, j| {
            let i = j * stride;
            let (ch, cn, v) = ((i / (32 * 16384)) as u8, ((i / 16384) % 32) as u8, (i % 16384) as u16);
            sub.eval(i as u128, || json!({"conv": "produced_cc14", "channel": ch, "controller": cn, "value": v}), || produced_cc14(ch, cn, v));
        });
        let st = ctx.pick(97usize, 7, 1);
        let mut m = Mix(ctx.sub_seed("produced_pn"));
        for c in 0..8usize {
            let vmax = crate::p_nrpn::value_max(c);
            for number in (0..16384u16).step_by(st) {
                let value = (m.below(vmax as u64 + 1)) as u16;
                for lsb_first in [false, true] {
                    sub.eval(number as u128, || json!({"conv": "produced_pn", "ctor": c, "channel": number % 16, "number": number, "value": value, "lsb_first": lsb_first}), || produced_pn(c, (number % 16) as u8, number, value, lsb_first));
                }
            }
            for value in (0..=vmax).step_by(st) {
                let number = m.below(16384) as u16;
                sub.eval(value as u128, || json!({"conv": "produced_pn", "ctor": c, "channel": 15, "number": number, "value": value, "lsb_first": true}), || produced_pn(c, 15, number, value, true));
            }
        }
        sub.exhaustive = false;
        sub.samples.push(json!({"conv": "produced_cc14", "channel": 15, "controller": 31, "value": 16383}));
        subs.push(sub);
    }
    // scanners (the two that exist in every configuration)
    {
        let proto = Sub::new(
            "produced_by_scanners",
            "fields of every message reported by the 14-bit CC scanner and the (N)RPN scanner on seeded random histories over the full alphabet",
            "non-trivial = history with a report; distinct by hash",
            false,
        );
        let cases = ctx.pick(1_000u64, 40_000, 200_000);
        let sub = par_proptest(
            ctx,
            &proto,
            cases,
            || (history_strategy(Kind::Cc14, 64), history_strategy(Kind::Nrpn, 64)),
            |c: &(RawHistory, RawHistory)| json!({"conv": "produced_scanners", "cc14_ops": ops_json(&concretize(Kind::Cc14, &c.0, 0)), "nrpn_ops": ops_json(&concretize(Kind::Nrpn, &c.1, 0))}),
            |c: &(RawHistory, RawHistory)| produced_by_scanners(&concretize(Kind::Cc14, &c.0, 0), &concretize(Kind::Nrpn, &c.1, 0)),
        );
        subs.push(sub);
    }
}

fn check_bytes(m: &helgoboss_midi::RawShortMessage) -> Result<(), Fail> {
    use helgoboss_midi::ShortMessage;
    let b = api(|| m.to_bytes());
    ensure!(b.1.get() <= 127 && b.2.get() <= 127, "produced_out_of_range/encoder", "{:?}", m);
    Ok(())
}

fn produced_cc14(ch: u8, cn: u8, v: u16) -> CheckResult {
    use crate::refmodel::*;
    use helgoboss_midi::{ControlChange14BitMessage, RawShortMessage, ShortMessage, StructuredShortMessage};
    let msg = ControlChange14BitMessage::new(h_ch(ch), h_cn(cn), h_u14(v));
    let a: [RawShortMessage; 2] = api(|| msg.to_short_messages());
    check_bytes(&a[0])?;
    check_bytes(&a[1])?;
    let s: [StructuredShortMessage; 2] = api(|| msg.to_short_messages());
    for x in s.iter() {
        let b = api(|| x.to_bytes());
        ensure!(b.1.get() <= 127 && b.2.get() <= 127, "produced_out_of_range/encoder", "{:?}", x);
    }
    ensure!(api(|| msg.lsb_controller_number()).get() <= 127 && api(|| msg.value()).get() <= 16383 && api(|| msg.channel()).get() <= 15, "produced_out_of_range/cc14_accessor", "{:?}", msg);
    Ok(true)
}

fn produced_pn(c: usize, ch: u8, number: u16, value: u16, lsb_first: bool) -> CheckResult {
    use crate::refmodel::*;
    use helgoboss_midi::{DataEntryByteOrder, RawShortMessage};
    let msg = crate::p_nrpn::ctor_build(c, ch, number, value);
    let a: [Option<RawShortMessage>; 4] = api(|| msg.to_short_messages(if lsb_first { DataEntryByteOrder::LsbFirst } else { DataEntryByteOrder::MsbFirst }));
    for x in a.iter().flatten() {
        check_bytes(x)?;
    }
    let r = observe_pn(&msg);
    ensure!(r.channel <= 15 && r.number <= 16383 && r.value <= 16383, "produced_out_of_range/pn_accessor", "{:?}", r);
    Ok(true)
}

fn produced_by_scanners(a: &[crate::ops::Op], b: &[crate::ops::Op]) -> Result<ROutcome, Fail> {
    use crate::ops::*;
    use crate::refmodel::*;
    use helgoboss_midi::{ControlChange14BitMessageScanner, ParameterNumberMessageScanner};
    {
        let mut reports = 0;
        let mut sc = api(ControlChange14BitMessageScanner::new);
        for op in a {
            match *op {
                Op::Feed { carrier, s, d1, d2 } => {
                    if let Some(m) = feed_cc14(&mut sc, carrier, s, d1, d2) {
                        reports += 1;
                        let o = observe_cc14(&m);
                        ensure!(o.0 <= 15 && o.1 <= 31 && o.2 <= 16383 && api(|| m.lsb_controller_number()).get() <= 63, "produced_out_of_range/cc14_scanner", "{:?}", m);
                    }
                }
                Op::Reset => api(|| sc.reset()),
                _ => {}
            }
        }
        let mut sc = api(ParameterNumberMessageScanner::new);
        for op in b {
            match *op {
                Op::Feed { carrier, s, d1, d2 } => {
                    if let Some(m) = feed_nrpn(&mut sc, carrier, s, d1, d2) {
                        reports += 1;
                        let r = observe_pn(&m);
                        ensure!(r.channel <= 15 && r.number <= 16383 && r.value <= 16383 && (r.is_14_bit || r.value <= 127), "produced_out_of_range/nrpn_scanner", "{:?}", r);
                    }
                }
                Op::Reset => api(|| sc.reset()),
                _ => {}
            }
        }
        // the polling scanner (std only; time does not matter for the range of what it reports)
        #[cfg(feature = "hm_std")]
        {
            let mut sc = crate::p_polling::new_scanner(0);
            for op in b {
                match *op {
                    Op::Feed { carrier, s, d1, d2 } => {
                        for m in polling::feed_polling(&mut sc, carrier, s, d1, d2).iter().flatten() {
                            reports += 1;
                            let r = observe_pn(m);
                            ensure!(r.channel <= 15 && r.number <= 16383 && r.value <= 16383 && (r.is_14_bit || r.value <= 127), "produced_out_of_range/polling_scanner", "{:?}", r);
                        }
                        if s >> 4 == 0xB && d2 % 8 == 0 {
                            if let Some(m) = api(|| sc.poll(h_ch(s & 15))) {
                                let r = observe_pn(&m);
                                ensure!(r.channel <= 15 && r.number <= 16383 && r.value <= 16383 && (r.is_14_bit || r.value <= 127), "produced_out_of_range/polling_scanner", "{:?}", r);
                            }
                        }
                    }
                    Op::Reset => api(|| sc.reset()),
                    _ => {}
                }
            }
        }
        Ok(ROutcome { nontrivial: reports > 0, classes: if reports > 0 { vec!["has_report"] } else { vec![] }, hash: hash64(&(a, b)) })
    }
}
