//! C09 ((N)RPN encoding), C10 (the non-polling scanner inverts the encoder for the documented
//! sequences), C11 (the non-polling scanner reports exactly the justified messages).
use crate::bfs::*;
use crate::engine::*;
use crate::impls::*;
use crate::ops::*;
use crate::p_short::Impl;
use crate::refmodel::*;
use crate::{ensure, for_impl};
use helgoboss_midi::{
    DataEntryByteOrder, ParameterNumberMessage, ParameterNumberMessageScanner, RawShortMessage, ShortMessage,
    StructuredShortMessage,
};
use proptest::prelude::*;
use serde_json::{json, Value};

pub const CTORS: [&str; 8] = [
    "non_registered_7_bit", "non_registered_14_bit", "non_registered_decrement", "non_registered_increment",
    "registered_7_bit", "registered_14_bit", "registered_decrement", "registered_increment",
];

/// what constructor `c` describes, in plain integers
pub fn ctor_report(c: usize, ch: u8, number: u16, value: u16) -> PnReport {
    let registered = c >= 4;
    let (is_14_bit, kind) = match c % 4 {
        0 => (false, 0),
        1 => (true, 0),
        2 => (false, 2),
        _ => (false, 1),
    };
    PnReport { channel: ch, number, value, registered, is_14_bit, kind }
}

pub fn ctor_build(c: usize, ch: u8, number: u16, value: u16) -> ParameterNumberMessage {
    use ParameterNumberMessage as P;
    let (chn, n) = (h_ch(ch), h_u14(number));
    match c {
        0 => P::non_registered_7_bit(chn, n, h_u7(value as u8)),
        1 => P::non_registered_14_bit(chn, n, h_u14(value)),
        2 => P::non_registered_decrement(chn, n, h_u7(value as u8)),
        3 => P::non_registered_increment(chn, n, h_u7(value as u8)),
        4 => P::registered_7_bit(chn, n, h_u7(value as u8)),
        5 => P::registered_14_bit(chn, n, h_u14(value)),
        6 => P::registered_decrement(chn, n, h_u7(value as u8)),
        _ => P::registered_increment(chn, n, h_u7(value as u8)),
    }
}

pub fn value_max(c: usize) -> u16 {
    if c % 4 == 1 { 16383 } else { 127 }
}

/// expected Control Change sequence (status, controller, value), from the property statement;
/// fixed-size (no allocation: this is the hot path of the 10^10 sweep)
pub fn ref_encode_slots(r: &PnReport, lsb_first: bool) -> [Option<(u8, u8, u8)>; 4] {
    let s = 0xB0 | r.channel;
    let mut v = [
        Some((s, if r.registered { 101 } else { 99 }, (r.number >> 7) as u8)),
        Some((s, if r.registered { 100 } else { 98 }, (r.number & 127) as u8)),
        None,
        None,
    ];
    match (r.kind, r.is_14_bit) {
        (0, false) => v[2] = Some((s, 6, r.value as u8)),
        (0, true) => {
            let (hi, lo) = ((s, 6, (r.value >> 7) as u8), (s, 38, (r.value & 127) as u8));
            if lsb_first {
                v[2] = Some(lo);
                v[3] = Some(hi);
            } else {
                v[2] = Some(hi);
                v[3] = Some(lo);
            }
        }
        (1, _) => v[2] = Some((s, 96, r.value as u8)),
        _ => v[2] = Some((s, 97, r.value as u8)),
    }
    v
}

pub fn ref_encode_pn(r: &PnReport, lsb_first: bool) -> Vec<(u8, u8, u8)> {
    ref_encode_slots(r, lsb_first).iter().flatten().copied().collect()
}

fn slots_of<M: Impl>(a: &[Option<M>; 4]) -> [Option<(u8, u8, u8)>; 4] {
    let mut out = [None; 4];
    for (i, o) in a.iter().enumerate() {
        out[i] = o.as_ref().map(|m| {
            let b = api(|| m.to_bytes());
            (b.0, b.1.get(), b.2.get())
        });
    }
    out
}

fn check_encode_impl<M: Impl>(msg: &ParameterNumberMessage, r: &PnReport, lsb_first: bool) -> CheckResult {
    let name = IMPL_NAMES[M::IDX as usize];
    let order = if lsb_first { DataEntryByteOrder::LsbFirst } else { DataEntryByteOrder::MsbFirst };
    let want = ref_encode_slots(r, lsb_first);
    let a: [Option<M>; 4] = api(|| msg.to_short_messages(order));
    let got = slots_of(&a);
    ensure!(
        got == want,
        format!("encode/{}/{}{}", name, CTORS[ctor_index(r)], if lsb_first { "/lsb_first" } else { "/msb_first" }),
        "to_short_messages of {:?} = {:?}, expected {:?}", r, got, want
    );
    ensure!(got[3].is_some() == r.is_14_bit, format!("fourth_slot/{}", name), "{:?}", got);
    if !lsb_first {
        let b: [Option<M>; 4] = api(|| (*msg).into());
        ensure!(slots_of(&b) == want, format!("encode_into_array/{}", name), "Into<[Option<T>;4]> of {:?} = {:?}, expected {:?}", r, slots_of(&b), want);
    }
    // each produced message is a Control Change on the channel
    for s in a.iter().flatten() {
        ensure!(api(|| s.channel()).map(|c| c.get()) == Some(r.channel) && api(|| s.controller_number()).is_some(), format!("encode_not_control_change/{}", name), "{:?}", s);
    }
    Ok(true)
}

fn ctor_index(r: &PnReport) -> usize {
    (if r.registered { 4 } else { 0 }) + match (r.is_14_bit, r.kind) {
        (true, _) => 1,
        (false, 0) => 0,
        (false, 2) => 2,
        _ => 3,
    }
}

fn check_pn(c: usize, ch: u8, number: u16, value: u16, lsb_first: bool, impl_mask: u8) -> CheckResult {
    let want = ctor_report(c, ch, number, value);
    let msg = api(|| ctor_build(c, ch, number, value));
    let got = observe_pn(&msg);
    ensure!(got == want, format!("accessors/{}", CTORS[c]), "{}(ch {}, number {}, value {}) observes as {:?}", CTORS[c], ch, number, value, got);
    ensure!(got.is_14_bit || got.value <= 127, "seven_bit_value_range", "{:?}", got);
    ensure!(!got.is_14_bit || got.kind == 0, "fourteen_bit_implies_data_entry", "{:?}", got);
    for k in 0..4u8 {
        if impl_mask & (1 << k) != 0 {
            for_impl!(k, check_encode_impl(&msg, &want, lsb_first))?;
        }
    }
    Ok(number >= 128 && (value >= 128 || !want.is_14_bit))
}

fn pn_case_json(c: usize, ch: u8, number: u16, value: u16, lsb_first: bool) -> Value {
    json!({"ctor": CTORS[c], "channel": ch, "number": number, "value": value, "lsb_first": lsb_first})
}

fn pn_simplicity(ch: u8, number: u16, value: u16) -> u128 {
    (((ch != 0) as u128 + (number != 0) as u128 + (value != 0) as u128) << 48) | (number as u128) << 24 | (value as u128) << 8 | ch as u128
}

pub fn run_c09(ctx: &Ctx) -> Report {
    let mut subs = Vec::new();
    // dimension sweeps
    {
        let proto = Sub::new(
            "dimension_sweeps",
            "8 constructors x 2 byte orders x 4 implementations: all 16384 numbers (others at boundaries), all values (others at boundaries), all 16 channels",
            "non-trivial = number >= 128 and (14-bit: value >= 128)",
            false,
        );
        let mut cases: Vec<(usize, u8, u16, u16, bool)> = Vec::new();
        let st = ctx.pick(13usize, 1, 1);
        for c in 0..8 {
            let vmax = value_max(c);
            for lsb_first in [false, true] {
                for number in (0..16384u16).step_by(st) {
                    for ch in [0u8, 15] {
                        for value in [0u16, 1, vmax / 2 + 1, vmax] {
                            cases.push((c, ch, number, value, lsb_first));
                        }
                    }
                }
                for value in (0..=vmax).step_by(st) {
                    for ch in [0u8, 9] {
                        for number in [0u16, 127, 128, 420, 16383] {
                            cases.push((c, ch, number, value, lsb_first));
                        }
                    }
                }
                for ch in 0..16u8 {
                    for number in [0u16, 129, 16383] {
                        for value in [0u16, vmax.min(129), vmax] {
                            cases.push((c, ch, number, value, lsb_first));
                        }
                    }
                }
            }
        }
        let mut sub = par_enum(ctx, &proto, cases.len() as u64, |sub, i| {
            let (c, ch, number, value, lsb_first) = cases[i as usize];
            sub.eval(pn_simplicity(ch, number, value), || pn_case_json(c, ch, number, value, lsb_first), || check_pn(c, ch, number, value, lsb_first, 0b1111));
        });
        sub.add_samples(cases.len() as u64, ctx.seed, |i| {
            let (c, ch, number, value, lsb_first) = cases[i as usize];
            pn_case_json(c, ch, number, value, lsb_first)
        });
        subs.push(sub);
    }
    // uniformly drawn tuples over the full product
    {
        let n = ctx.pick(50_000u64, 2_000_000, 20_000_000);
        let proto = Sub::new(
            "random_tuples",
            "seeded uniformly drawn (constructor, channel, number, value, byte order) tuples over the full product, 4 implementations",
            "non-trivial = number >= 128 and (14-bit: value >= 128); counted per evaluation (draws are from a 10^10 space, repeats negligible)",
            false,
        );
        let seed = ctx.sub_seed("random_tuples");
        let draw = move |i: u64| {
            let h = splitmix(seed ^ i.wrapping_mul(0x9E3779B97F4A7C15));
            let c = (h % 8) as usize;
            let ch = ((h >> 3) % 16) as u8;
            let number = ((h >> 7) % 16384) as u16;
            let value = ((h >> 21) % (value_max(c) as u64 + 1)) as u16;
            let lsb_first = (h >> 40) & 1 == 1;
            (c, ch, number, value, lsb_first)
        };
        let mut sub = par_enum(ctx, &proto, n, |sub, i| {
            let (c, ch, number, value, lsb_first) = draw(i);
            sub.eval(pn_simplicity(ch, number, value), || pn_case_json(c, ch, number, value, lsb_first), || check_pn(c, ch, number, value, lsb_first, 0b1111));
        });
        sub.exhaustive = false;
        sub.add_samples(n, ctx.seed, |i| {
            let (c, ch, number, value, lsb_first) = draw(i);
            pn_case_json(c, ch, number, value, lsb_first)
        });
        subs.push(sub);
    }
    // messages that come out of the scanners must encode like constructor-built ones
    {
        let n = ctx.pick(5_000u64, 200_000, 2_000_000);
        let proto = Sub::new(
            "reencode_scanner_output",
            "seeded (N)RPN messages are encoded (reference sequence, both byte orders), fed to the (N)RPN scanner (LSB first) and - with std - to the polling scanner (both orders); the message each scanner reports must be equal to the original and must itself encode (array conversion, to_short_messages in both orders) exactly like a constructor-built message",
            "non-trivial = 14-bit message (the byte order matters); counted per evaluation",
            false,
        );
        let seed = ctx.sub_seed("reencode_scanner_output");
        let mut sub = par_enum(ctx, &proto, n, |sub, i| {
            let h = splitmix(seed ^ i.wrapping_mul(0x9E3779B97F4A7C15));
            let c = (h % 8) as usize;
            let r = ctor_report(c, ((h >> 3) % 16) as u8, ((h >> 7) % 16384) as u16, ((h >> 21) % (value_max(c) as u64 + 1)) as u16);
            sub.eval(pn_simplicity(r.channel, r.number, r.value), || json!({"kind": "reencode", "message": report_json(&r)}), || check_reencode(&r));
        });
        sub.exhaustive = false;
        sub.samples.push(json!({"kind": "reencode", "message": report_json(&ctor_report(5, 0, 420, 15000))}));
        subs.push(sub);
    }
    if ctx.thorough() {
        // full product: all 7-bit / inc / dec messages
        {
            let proto = Sub::new(
                "all_7_bit_messages",
                "full product: 6 seven-bit constructors x 16 channels x 16384 numbers x 128 values x 2 byte orders, 4 implementations",
                "non-trivial = number >= 128",
                true,
            );
            let n = 6u64 * 16 * 16384 * 128 * 2;
            let dec = |i: u64| {
                let lsb_first = i & 1 == 1;
                let i = i >> 1;
                let value = (i % 128) as u16;
                let number = ((i / 128) % 16384) as u16;
                let ch = ((i / (128 * 16384)) % 16) as u8;
                let c = [0usize, 2, 3, 4, 6, 7][(i / (128 * 16384 * 16)) as usize];
                (c, ch, number, value, lsb_first)
            };
            let mut sub = par_enum(ctx, &proto, n, |sub, i| {
                let (c, ch, number, value, lsb_first) = dec(i);
                sub.eval(pn_simplicity(ch, number, value), || pn_case_json(c, ch, number, value, lsb_first), || check_pn(c, ch, number, value, lsb_first, 0b1111));
            });
            sub.add_samples(n, ctx.seed, |i| {
                let (c, ch, number, value, lsb_first) = dec(i);
                pn_case_json(c, ch, number, value, lsb_first)
            });
            subs.push(sub);
        }
        // full product of the 14-bit messages for RawShortMessage; 1/64 stride for the others
        {
            let proto = Sub::new(
                "all_14_bit_messages_raw",
                "full product: 2 fourteen-bit constructors x 16 channels x 16384 numbers x 16384 values x 2 byte orders into RawShortMessage (every 64th tuple additionally into the other 3 implementations)",
                "non-trivial = number >= 128 and value >= 128",
                true,
            );
            let n = 2u64 * 16 * 16384 * 16384 * 2;
            let dec = |i: u64| {
                let lsb_first = i & 1 == 1;
                let i = i >> 1;
                let value = (i % 16384) as u16;
                let number = ((i / 16384) % 16384) as u16;
                let ch = ((i / (16384 * 16384)) % 16) as u8;
                let c = [1usize, 5][(i / (16384 * 16384 * 16)) as usize];
                (c, ch, number, value, lsb_first)
            };
            let mut sub = par_enum(ctx, &proto, n, |sub, i| {
                let (c, ch, number, value, lsb_first) = dec(i);
                let mask = if (i >> 1) % 64 == 0 { 0b1111 } else { 0b0001 };
                sub.eval(pn_simplicity(ch, number, value), || pn_case_json(c, ch, number, value, lsb_first), || check_pn(c, ch, number, value, lsb_first, mask));
            });
            sub.add_samples(n, ctx.seed, |i| {
                let (c, ch, number, value, lsb_first) = dec(i);
                pn_case_json(c, ch, number, value, lsb_first)
            });
            subs.push(sub);
        }
    }
    Report {
        subs,
        rule: "quick: full sweep of each dimension with the others at boundaries + 2M seeded uniformly drawn tuples; thorough: the full product (1.7 x 10^10 fourteen-bit encodes into RawShortMessage, all seven-bit messages into all implementations); expected slots by integer arithmetic (v >> 7, v & 127, controller literals 6/38/96-101)".into(),
        assumptions: vec!["controller assignment as in the property statement: 101/100 registered, 99/98 non-registered, 6/38 data entry MSB/LSB, 96/97 increment/decrement".into()],
    }
}

fn check_reencode(r: &PnReport) -> CheckResult {
    // through the non-polling scanner (LSB-first encoding)
    let mut sc = api(ParameterNumberMessageScanner::new);
    let mut got = None;
    for (s, cn, v) in ref_encode_pn(r, true) {
        got = feed_nrpn(&mut sc, 0, s, cn, v);
    }
    let g = got.ok_or_else(|| Fail { sig: "reencode/scanner_did_not_report".into(), detail: format!("{:?}", r) })?;
    ensure!(observe_pn(&g) == *r, "reencode/scanner_reported_other_message", "{:?} vs {:?}", observe_pn(&g), r);
    reencode_pn(&g)?;
    #[cfg(feature = "hm_std")]
    for lsb_first in [false, true] {
        use crate::ops::polling::*;
        let mut ps = crate::p_polling::new_scanner(0);
        set_clock(0);
        let mut reported = Vec::new();
        for (s, cn, v) in ref_encode_pn(r, lsb_first) {
            for m in feed_polling(&mut ps, 0, s, cn, v).iter().flatten() {
                reported.push(*m);
            }
        }
        if let Some(m) = api(|| ps.poll(h_ch(r.channel))) {
            reported.push(m);
        }
        ensure!(reported.len() == 1 && observe_pn(&reported[0]) == *r, "reencode/polling_scanner_reported_other_messages", "{:?} ({}): {:?}", r, if lsb_first { "LSB first" } else { "MSB first" }, reported.iter().map(observe_pn).collect::<Vec<_>>());
        reencode_pn(&reported[0])?;
    }
    Ok(r.is_14_bit)
}

pub fn replay_c09(_sub: &str, case: &Value) -> Option<CheckResult> {
    if case["kind"].as_str() == Some("reencode") {
        return Some(check_reencode(&report_from(&case["message"])?));
    }
    let c = CTORS.iter().position(|n| Some(*n) == case["ctor"].as_str())?;
    let ch = json_u8(&case["channel"]).filter(|c| *c < 16)?;
    let number = json_u64(&case["number"]).filter(|v| *v < 16384)? as u16;
    let value = json_u64(&case["value"]).filter(|v| *v <= value_max(c) as u64)? as u16;
    let lsb_first = case["lsb_first"].as_bool()?;
    Some(check_pn(c, ch, number, value, lsb_first, 0b1111))
}

// ---------------------------------------------------------------------------------------------
// C10
// ---------------------------------------------------------------------------------------------

/// A prefix that installs a prior per-channel scanner state: up to two number bytes and a data LSB.
#[derive(Clone, Copy, Debug, PartialEq, Eq, Hash)]
pub struct Prior {
    pub msb: Option<(bool, u8)>,
    pub lsb: Option<(bool, u8)>,
    /// number LSB byte fed before the MSB byte (decides which kind is the most recent)
    pub lsb_first: bool,
    pub v38: Option<u8>,
}

pub fn prior_ops(ch: u8, p: &Prior) -> Vec<Op> {
    let mut v = Vec::new();
    let m = p.msb.map(|(reg, x)| Op::cc(ch, if reg { 101 } else { 99 }, x));
    let l = p.lsb.map(|(reg, x)| Op::cc(ch, if reg { 100 } else { 98 }, x));
    if p.lsb_first {
        v.extend(l);
        v.extend(m);
    } else {
        v.extend(m);
        v.extend(l);
    }
    if let Some(z) = p.v38 {
        v.push(Op::cc(ch, 38, z));
    }
    v
}

fn prior_from_hash(h: u64, msg: &PnReport) -> Prior {
    let pick = |x: u64, own: u8| -> Option<(bool, u8)> {
        match x % 6 {
            0 => None,
            1 => Some(((x >> 8) & 1 == 1, 0)),
            2 => Some(((x >> 8) & 1 == 1, 127)),
            3 => Some(((x >> 8) & 1 == 1, own)),
            4 => Some(((x >> 8) & 1 == 1, own ^ 1)),
            _ => Some(((x >> 8) & 1 == 1, ((x >> 16) % 128) as u8)),
        }
    };
    Prior {
        msb: pick(h, (msg.number >> 7) as u8),
        lsb: pick(h >> 20, (msg.number & 127) as u8),
        lsb_first: (h >> 40) & 1 == 1,
        v38: match (h >> 44) % 4 {
            0 => None,
            1 => Some(0),
            2 => Some(127),
            _ => Some(((h >> 48) % 128) as u8),
        },
    }
}

/// feeds the (LSB-first) encoding of `r` to the scanner: nothing until the last message, then `r`
fn feed_encoding_expect(sc: &mut ParameterNumberMessageScanner, r: &PnReport, carrier: u8, sig: &str) -> Result<(), Fail> {
    let enc = ref_encode_pn(r, true);
    let msg = build_pn(r);
    for (i, (s, cn, v)) in enc.iter().enumerate() {
        let got = feed_nrpn(sc, carrier, *s, *cn, *v);
        if i + 1 < enc.len() {
            ensure!(got.is_none(), format!("{}/early_report", sig), "message #{} (cc {} = {}) of the encoding of {:?} reported {:?}", i, cn, v, r, got);
        } else {
            ensure!(got == Some(msg), format!("{}/{}", sig, if got.is_none() { "no_report" } else { "wrong_report" }), "last message of the encoding of {:?} reported {:?}", r, got.as_ref().map(observe_pn));
            if let Some(g) = got {
                ensure!(observe_pn(&g) == *r, format!("{}/accessors", sig), "{:?}", observe_pn(&g));
            }
        }
    }
    Ok(())
}

fn apply_ops_nrpn(sc: &mut ParameterNumberMessageScanner, ops: &[Op]) {
    for op in ops {
        match *op {
            Op::Feed { carrier, s, d1, d2 } => {
                let _ = feed_nrpn(sc, carrier, s, d1, d2);
            }
            Op::Reset => api(|| sc.reset()),
            _ => {}
        }
    }
}

fn check_invert(r: &PnReport, prior: &[Op], carrier: u8) -> CheckResult {
    let mut sc = if (r.number as usize + prior.len()) % 2 == 0 { api(ParameterNumberMessageScanner::new) } else { api(ParameterNumberMessageScanner::default) };
    apply_ops_nrpn(&mut sc, prior);
    let snapshot = sc;
    // (a) the encoding as the property describes it (reference arithmetic)
    feed_encoding_expect(&mut sc, r, carrier, "invert")?;
    // (b) the encoding the crate's own encoder produces (LSB first), into RawShortMessage
    let mut sc = snapshot;
    let msg = build_pn(r);
    let enc: [Option<RawShortMessage>; 4] = api(|| msg.to_short_messages(DataEntryByteOrder::LsbFirst));
    let n = enc.iter().flatten().count();
    for (i, m) in enc.iter().flatten().enumerate() {
        let got = api(|| sc.feed(m));
        if i + 1 < n {
            ensure!(got.is_none(), "invert_own_encoder/early_report", "message #{} of to_short_messages(LsbFirst) of {:?} reported {:?}", i, r, got.as_ref().map(observe_pn));
        } else {
            ensure!(got == Some(msg), format!("invert_own_encoder/{}", if got.is_none() { "no_report" } else { "wrong_report" }), "the crate's own LSB-first encoding of {:?} decodes to {:?}", r, got.as_ref().map(observe_pn));
        }
    }
    Ok(!prior.is_empty())
}

/// running forms after one number selection
#[derive(Clone, Debug)]
pub struct Running {
    pub ch: u8,
    pub registered: bool,
    pub number: u16,
    /// true: items are (CC 38, CC 6) pairs; false: items are single CC 6 / 96 / 97
    pub fourteen: bool,
    /// (which: 0 = CC 6, 1 = CC 96, 2 = CC 97, value (14-bit for pairs))
    pub items: Vec<(u8, u16)>,
    /// positions (item index) before which a non-contributing message is inserted, with its bytes
    pub noise: Vec<(u8, u8, u8, u8)>,
    pub sel_lsb_first: bool,
}

fn noise_op(ch: u8, n: &(u8, u8, u8, u8)) -> Op {
    // n.1 selects the kind of non-contributing message
    match n.1 % 4 {
        0 => Op::Feed { carrier: 0, s: 0x90 | ch, d1: n.2 & 127, d2: n.3 & 127 },
        1 => {
            // a control change that is not an (N)RPN controller
            let mut cn = n.2 & 127;
            if NRPN_CONTROLLERS.contains(&cn) {
                cn = 7;
            }
            Op::Feed { carrier: 1, s: 0xB0 | ch, d1: cn, d2: n.3 & 127 }
        }
        2 => Op::Feed { carrier: 2, s: 0xF8 | (n.2 & 7), d1: 0, d2: 0 },
        _ => Op::Feed { carrier: 3, s: 0xE0 | ((ch + 1) & 15), d1: n.2 & 127, d2: n.3 & 127 }, // other channel
    }
}

fn check_running(r: &Running, prior: &[Op]) -> CheckResult {
    let mut sc = api(ParameterNumberMessageScanner::new);
    apply_ops_nrpn(&mut sc, prior);
    let s = 0xB0 | r.ch;
    let sel = [(if r.registered { 101 } else { 99 }, (r.number >> 7) as u8), (if r.registered { 100 } else { 98 }, (r.number & 127) as u8)];
    let order = if r.sel_lsb_first { [1, 0] } else { [0, 1] };
    for i in order {
        let got = feed_nrpn(&mut sc, 0, s, sel[i].0, sel[i].1);
        ensure!(got.is_none(), "running/selection_reports", "number byte reported {:?}", got);
    }
    for (k, (which, value)) in r.items.iter().enumerate() {
        for n in r.noise.iter().filter(|n| n.0 as usize == k) {
            if let Op::Feed { carrier, s, d1, d2 } = noise_op(r.ch, n) {
                let got = feed_nrpn(&mut sc, carrier, s, d1, d2);
                ensure!(got.is_none(), "running/noise_reports", "non-contributing message reported {:?}", got);
            }
        }
        if r.fourteen {
            let got = feed_nrpn(&mut sc, 0, s, 38, (value & 127) as u8);
            ensure!(got.is_none(), "running/data_lsb_reports", "item #{}: data LSB reported {:?}", k, got);
            let got = feed_nrpn(&mut sc, 0, s, 6, (value >> 7) as u8);
            let want = PnReport { channel: r.ch, number: r.number, value: *value, registered: r.registered, is_14_bit: true, kind: 0 };
            ensure!(got == Some(build_pn(&want)), "running/fourteen_bit_pair", "item #{} (value {}): reported {:?}, expected {:?}", k, value, got.as_ref().map(observe_pn), want);
        } else {
            let cn = [6u8, 96, 97][*which as usize % 3];
            let got = feed_nrpn(&mut sc, 0, s, cn, (*value & 127) as u8);
            let want = PnReport { channel: r.ch, number: r.number, value: *value & 127, registered: r.registered, is_14_bit: false, kind: *which % 3 };
            ensure!(got == Some(build_pn(&want)), "running/seven_bit_item", "item #{} (cc {} = {}): reported {:?}, expected {:?}", k, cn, value & 127, got.as_ref().map(observe_pn), want);
        }
    }
    Ok(r.items.len() >= 2)
}

fn running_json(r: &Running, prior: &[Op]) -> Value {
    json!({"kind": "running", "channel": r.ch, "registered": r.registered, "number": r.number, "fourteen": r.fourteen,
           "items": r.items.iter().map(|(w, v)| json!([w, v])).collect::<Vec<_>>(),
           "noise": r.noise.iter().map(|n| json!([n.0, n.1, n.2, n.3])).collect::<Vec<_>>(),
           "sel_lsb_first": r.sel_lsb_first, "prior": ops_json(prior)})
}

fn report_json(r: &PnReport) -> Value {
    json!({"channel": r.channel, "number": r.number, "value": r.value, "registered": r.registered, "is_14_bit": r.is_14_bit, "data_kind": r.kind})
}

fn report_from(v: &Value) -> Option<PnReport> {
    let r = PnReport {
        channel: json_u8(&v["channel"]).filter(|c| *c < 16)?,
        number: json_u64(&v["number"]).filter(|c| *c < 16384)? as u16,
        value: json_u64(&v["value"]).filter(|c| *c < 16384)? as u16,
        registered: v["registered"].as_bool()?,
        is_14_bit: v["is_14_bit"].as_bool()?,
        kind: json_u8(&v["data_kind"]).filter(|c| *c < 3)?,
    };
    if (!r.is_14_bit && r.value > 127) || (r.is_14_bit && r.kind != 0) {
        return None;
    }
    Some(r)
}

fn report_strategy() -> impl Strategy<Value = PnReport> {
    (0usize..8, prop_oneof![4 => 0u8..16, 1 => Just(0u8), 1 => Just(15u8)], prop_oneof![6 => 0u16..16384, 2 => 0u16..8, 1 => Just(16383u16), 1 => Just(127u16), 1 => Just(128u16)], 0u16..16384).prop_map(|(c, ch, number, v)| {
        let value = v % (value_max(c) + 1);
        ctor_report(c, ch, number, value)
    })
}

pub fn run_c10(ctx: &Ctx) -> Report {
    let mut subs = Vec::new();
    // (1) every dimension swept + seeded messages, each after a constructed prior state
    {
        let n = ctx.pick(20_000u64, 400_000, 10_000_000);
        let proto = Sub::new(
            "invert_after_state",
            "seeded messages over the full (N)RPN message space, each fed (7-bit/inc/dec: 3 messages; 14-bit: LSB-first 4 messages) to a scanner whose channel was put into a constructed prior state (none / half a number / other number / other kind / stored data LSB)",
            "non-trivial = non-empty prior state; counted per evaluation",
            false,
        );
        let seed = ctx.sub_seed("invert_after_state");
        let draw = move |i: u64| {
            let h = splitmix(seed ^ i.wrapping_mul(0x9E3779B97F4A7C15));
            let c = (h % 8) as usize;
            let ch = ((h >> 3) % 16) as u8;
            // sweep numbers / values exhaustively in the first part of the index range
            let number = if i < 16384 { i as u16 } else { ((h >> 7) % 16384) as u16 };
            let value = if (16384..32768).contains(&i) { ((i - 16384) % (value_max(c) as u64 + 1)) as u16 } else { ((h >> 21) % (value_max(c) as u64 + 1)) as u16 };
            let r = ctor_report(c, ch, number, value);
            let prior = prior_from_hash(splitmix(h), &r);
            (r, prior, ((h >> 60) & 3) as u8)
        };
        let mut sub = par_enum(ctx, &proto, n, |sub, i| {
            let (r, prior, carrier) = draw(i);
            let pops = prior_ops(r.channel, &prior);
            if prior.v38.is_some() {
                sub.class("prior_has_stored_data_lsb");
            }
            if prior.msb.is_some() != prior.lsb.is_some() {
                sub.class("prior_has_half_a_number");
            }
            sub.eval(
                pn_simplicity(r.channel, r.number, r.value) + ((pops.len() as u128) << 52),
                || json!({"kind": "invert", "message": report_json(&r), "prior": ops_json(&pops), "via": carrier}),
                || check_invert(&r, &pops, carrier),
            );
        });
        sub.exhaustive = false;
        sub.add_samples(n, ctx.seed, |i| {
            let (r, prior, carrier) = draw(i);
            json!({"kind": "invert", "message": report_json(&r), "prior": ops_json(&prior_ops(r.channel, &prior)), "via": carrier})
        });
        subs.push(sub);
    }
    // (1b) every state of the one-channel abstract fixpoint x a message grid
    {
        let mut sub = Sub::new(
            "invert_after_pool_state",
            "every reachable per-channel state of the value-abstracted fixpoint (number bytes / data LSB over values {0,1,127}, both kinds; channels 0, 9, 15) x 8 constructors x numbers {0,1,6,127,128,129,16383} x boundary values: the encoding fed after the shortest history reaching the state",
            "non-trivial = non-initial prior state",
            true,
        );
        for ch in ctx.pick(vec![9u8], vec![0, 9, 15], vec![0, 9, 15]) {
            let alphabet: Vec<Op> = nrpn_alphabet(&[ch], &[0, 1, 127]);
            let out = bfs(
                ctx,
                BState { sc: ParameterNumberMessageScanner::new(), rf: RefNrpn::default() },
                alphabet.len(),
                |s, i| bfs_step(s, &alphabet[i]),
                |s| key_of(&s.sc, &[hash64(&s.rf)]),
                30_000,
            );
            sub.states += out.states.len() as u64;
            let paths: Vec<Vec<Op>> = (0..out.states.len()).map(|i| out.path_to(i).iter().map(|k| alphabet[*k]).collect()).collect();
            let mut grid: Vec<PnReport> = Vec::new();
            for c in 0..8usize {
                for number in [0u16, 1, 6, 127, 128, 129, 16383] {
                    for value in [0u16, 1, value_max(c) / 2 + 1, value_max(c)] {
                        grid.push(ctor_report(c, ch, number, value));
                    }
                }
            }
            let n = paths.len() as u64 * grid.len() as u64;
            let part = par_enum(ctx, &sub, n, |sub, i| {
                let prior = &paths[(i / grid.len() as u64) as usize];
                let r = grid[(i % grid.len() as u64) as usize];
                sub.eval(
                    pn_simplicity(r.channel, r.number, r.value) + ((prior.len() as u128) << 52),
                    || json!({"kind": "invert", "message": report_json(&r), "prior": ops_json(prior), "via": 0}),
                    || check_invert(&r, prior, (i % 4) as u8),
                );
            });
            sub.merge(part);
        }
        sub.exhaustive = true;
        sub.samples.push(json!({"kind": "invert", "message": report_json(&ctor_report(1, 9, 129, 16383)), "prior": ops_json(&[Op::cc(9, 101, 1), Op::cc(9, 38, 127)]), "via": 0}));
        subs.push(sub);
    }
    // (1c) long repetitions before the message (lazily invalidated state tagged with a wrapping counter)
    {
        let mut sub = Sub::new(
            "invert_after_repetition",
            "a short prefix (nothing / a data LSB / a full 14-bit message) followed by one (N)RPN controller message repeated k times, k in 250..=260 (thorough: also 65530..=65540), then the encoding of a message from a grid",
            "non-trivial = every case",
            false,
        );
        let ch = 4u8;
        let prefixes: Vec<Vec<Op>> = vec![
            vec![],
            vec![Op::cc(ch, 38, 5)],
            vec![Op::cc(ch, 101, 1), Op::cc(ch, 100, 2), Op::cc(ch, 38, 3), Op::cc(ch, 6, 4)],
            vec![Op::cc(ch, 99, 1), Op::cc(ch, 98, 2), Op::cc(ch, 38, 3)],
        ];
        let mut ks: Vec<usize> = (250..=260).collect();
        if ctx.thorough() {
            ks.extend(65530..=65540);
        }
        let reps: Vec<Op> = NRPN_CONTROLLERS.iter().flat_map(|cn| [Op::cc(ch, *cn, 0), Op::cc(ch, *cn, 1)]).chain([Op::Reset, Op::cc(ch, 7, 0)]).collect();
        let grid: Vec<PnReport> = vec![ctor_report(0, ch, 129, 5), ctor_report(1, ch, 129, 700), ctor_report(4, ch, 130, 0), ctor_report(5, ch, 258, 16383), ctor_report(3, ch, 1, 1), ctor_report(6, ch, 16383, 127), ctor_report(0, ch, 0, 0)];
        let mut cases: Vec<(usize, usize, usize, usize)> = Vec::new();
        for p in 0..prefixes.len() {
            for r in 0..reps.len() {
                for &k in &ks {
                    for g in 0..grid.len() {
                        cases.push((p, r, k, g));
                    }
                }
            }
        }
        if ctx.reduced {
            cases.truncate(400);
        }
        let part = par_enum(ctx, &sub, cases.len() as u64, |sub, i| {
            let (p, r, k, g) = cases[i as usize];
            let mut prior = prefixes[p].clone();
            for _ in 0..k {
                prior.push(reps[r]);
            }
            let msg = grid[g];
            sub.eval(
                (k as u128) << 8 | p as u128,
                || json!({"kind": "invert_repetition", "message": report_json(&msg), "prefix": ops_json(&prefixes[p]), "repeated": op_json(&reps[r]), "times": k}),
                || check_invert(&msg, &prior, 0),
            );
        });
        sub.merge(part);
        sub.samples.push(json!({"kind": "invert_repetition", "message": report_json(&grid[0]), "prefix": ops_json(&prefixes[1]), "repeated": op_json(&reps[2]), "times": 254}));
        subs.push(sub);
    }
    // (2) after arbitrary random histories
    {
        let cases = ctx.pick(2_000u64, 100_000, 600_000);
        let max_len = ctx.pick(24usize, 48, 200);
        let proto = Sub::new(
            "invert_after_history",
            "random 16-channel histories over the full alphabet (all carriers, resets) followed by the encoding of a random message",
            "non-trivial = the message's channel received (N)RPN controllers since the last reset; distinct by hash",
            false,
        );
        let mut sub = par_proptest(
            ctx,
            &proto,
            cases,
            || (history_strategy(Kind::Nrpn, max_len), report_strategy(), 0u8..4, any::<u8>()),
            |c: &(RawHistory, PnReport, u8, u8)| {
                let (ops, r) = map_hist_msg(c);
                json!({"kind": "invert", "message": report_json(&r), "prior": ops_json(&ops), "via": c.2})
            },
            |c: &(RawHistory, PnReport, u8, u8)| {
                let (ops, r) = map_hist_msg(c);
                let mut touched = false;
                for op in &ops {
                    match op {
                        Op::Reset => touched = false,
                        _ => {
                            if let Some((ch, cn, _)) = op.is_cc() {
                                if ch == r.channel && NRPN_CONTROLLERS.contains(&cn) {
                                    touched = true;
                                }
                            }
                        }
                    }
                }
                check_invert(&r, &ops, c.2)?;
                Ok(ROutcome { nontrivial: touched, classes: if touched { vec!["channel_had_prior_nrpn_traffic"] } else { vec![] }, hash: hash64(&(&ops, r)) })
            },
        );
        sub.floor("channel_had_prior_nrpn_traffic", 200);
        subs.push(sub);
    }
    // (3) running forms
    {
        let cases = ctx.pick(2_000u64, 100_000, 600_000);
        let max_items = ctx.pick(6usize, 6, 40);
        let proto = Sub::new(
            "running_forms",
            "one number selection (either byte order) then k homogeneous items: single CC 6/96/97 bytes, or (CC 38, CC 6) pairs; non-contributing messages interspersed; arbitrary constructed prior state",
            "non-trivial = k >= 2; distinct by hash",
            false,
        );
        let mut sub = par_proptest(
            ctx,
            &proto,
            cases,
            || {
                (
                    (prop_oneof![4 => 0u8..16, 1 => Just(0u8), 1 => Just(15u8)], any::<bool>(), prop_oneof![4 => 0u16..16384, 2 => 0u16..8, 1 => Just(16383u16), 1 => (0u16..128).prop_map(|x| x << 7)], any::<bool>(), any::<bool>()),
                    prop::collection::vec((0u8..3, 0u16..16384), 1..=max_items),
                    prop::collection::vec((0u8..(max_items as u8), any::<u8>(), any::<u8>(), any::<u8>()), 0..4),
                    any::<u64>(),
                )
                    .prop_map(|((ch, registered, number, fourteen, sel_lsb_first), items, noise, ph)| (Running { ch, registered, number, fourteen, items, noise, sel_lsb_first }, ph))
            },
            |c: &(Running, u64)| {
                let prior = prior_ops(c.0.ch, &prior_from_hash(c.1, &PnReport { channel: c.0.ch, number: c.0.number, value: 0, registered: c.0.registered, is_14_bit: false, kind: 0 }));
                running_json(&c.0, &prior)
            },
            |c: &(Running, u64)| {
                let prior = prior_ops(c.0.ch, &prior_from_hash(c.1, &PnReport { channel: c.0.ch, number: c.0.number, value: 0, registered: c.0.registered, is_14_bit: false, kind: 0 }));
                let nt = check_running(&c.0, &prior)?;
                let mut classes = vec![];
                if c.0.fourteen {
                    classes.push("fourteen_bit_pairs");
                } else {
                    classes.push("seven_bit_items");
                }
                if nt {
                    classes.push("k_ge_2");
                }
                Ok(ROutcome { nontrivial: nt, classes, hash: hash64(&(c.0.ch, c.0.registered, c.0.number, c.0.fourteen, &c.0.items, c.1)) })
            },
        );
        sub.floor("k_ge_2", 300);
        subs.push(sub);
    }
    Report {
        subs,
        rule: "seeded generation over the full message space x constructed prior states (incl. a stored data LSB, half a number, a different number/kind) and random prior histories; running forms with k items after one selection; oracle: the encoder's documented output sequence must decode to exactly the original message on its last Control Change".into(),
        assumptions: vec![
            "only the documented sequences are fed: MSB-first 14-bit encodings are never given to this scanner, running forms are homogeneous (a lone CC 6 after a 14-bit pair inside the same selection legitimately reuses the data LSB, see C11)".into(),
        ],
    }
}

fn map_hist_msg(c: &(RawHistory, PnReport, u8, u8)) -> (Vec<Op>, PnReport) {
    let ops = concretize(Kind::Nrpn, &c.0, 0);
    let subset = subset_of(c.0.mask);
    let mut r = c.1;
    if c.3 % 4 != 0 {
        r.channel = subset[c.3 as usize % subset.len()];
    }
    (ops, r)
}

pub fn replay_c10(_sub: &str, case: &Value) -> Option<CheckResult> {
    match case["kind"].as_str()? {
        "invert_repetition" => {
            let r = report_from(&case["message"])?;
            let mut prior = ops_from(&case["prefix"])?;
            let rep = op_from(&case["repeated"])?;
            for _ in 0..json_u64(&case["times"]).filter(|t| *t <= 100_000)? {
                prior.push(rep);
            }
            Some(check_invert(&r, &prior, 0))
        }
        "invert" => {
            let r = report_from(&case["message"])?;
            let prior = ops_from(&case["prior"])?;
            let carrier = json_u8(&case["via"]).unwrap_or(0) & 3;
            Some(check_invert(&r, &prior, carrier))
        }
        "running" => {
            let items: Option<Vec<(u8, u16)>> = case["items"].as_array()?.iter().map(|p| Some((json_u8(&p[0])?, json_u64(&p[1]).filter(|v| *v < 16384)? as u16))).collect();
            let noise: Option<Vec<(u8, u8, u8, u8)>> = case["noise"].as_array()?.iter().map(|p| Some((json_u8(&p[0])?, json_u8(&p[1])?, json_u8(&p[2])?, json_u8(&p[3])?))).collect();
            let r = Running {
                ch: json_u8(&case["channel"]).filter(|c| *c < 16)?,
                registered: case["registered"].as_bool()?,
                number: json_u64(&case["number"]).filter(|c| *c < 16384)? as u16,
                fourteen: case["fourteen"].as_bool()?,
                items: items?,
                noise: noise?,
                sel_lsb_first: case["sel_lsb_first"].as_bool()?,
            };
            let prior = ops_from(&case["prior"])?;
            Some(check_running(&r, &prior))
        }
        _ => None,
    }
}

// ---------------------------------------------------------------------------------------------
// C11
// ---------------------------------------------------------------------------------------------

#[derive(Default)]
pub struct NrpnStats {
    pub reports: u32,
    pub resets_mid: bool,
    pub half_reselect: bool,
    pub v38_before_number: bool,
    pub mixed_kinds: bool,
    pub fourteen: u32,
}

pub fn check_nrpn_history(ops: &[Op], stats: &mut NrpnStats) -> Result<(), Fail> {
    // "since creation": created through new() or through Default (chosen by the history itself)
    let mut sc = if hash64(&ops) & 1 == 0 { api(ParameterNumberMessageScanner::new) } else { api(ParameterNumberMessageScanner::default) };
    let mut rf = RefNrpn::default();
    let mut any_contrib = false;
    let mut kinds: [(Option<bool>, Option<bool>); 16] = [(None, None); 16];
    for (i, op) in ops.iter().enumerate() {
        match *op {
            Op::Feed { carrier, s, d1, d2 } => {
                let got = feed_nrpn(&mut sc, carrier, s, d1, d2);
                let pre = rf;
                let want = rf.feed(s, d1, d2);
                let gobs = got.as_ref().map(observe_pn);
                if gobs != want {
                    let kind = match (gobs, want) {
                        (Some(_), None) => "unjustified_report".to_string(),
                        (None, Some(_)) => "missing_report".to_string(),
                        (Some(g), Some(w)) => format!(
                            "wrong_report/{}",
                            if g.channel != w.channel { "channel" } else if g.number != w.number { "number" } else if g.registered != w.registered { "registered" } else if g.is_14_bit != w.is_14_bit { "resolution" } else if g.kind != w.kind { "data_type" } else { "value" }
                        ),
                        _ => unreachable!(),
                    };
                    return fail(format!("history/{}", kind), format!("op #{} {:?}: scanner reported {:?}, reference {:?}", i, op, gobs, want));
                }
                if let (Some(g), Some(w)) = (got, want) {
                    ensure!(g == build_pn(&w), "history/report_not_equal_to_constructed", "op #{}: {:?} != {:?}", i, g, build_pn(&w));
                    reencode_pn(&g)?;
                    stats.reports += 1;
                    if w.is_14_bit {
                        stats.fourteen += 1;
                    }
                }
                if s >> 4 == 0xB {
                    let c = (s & 15) as usize;
                    if NRPN_CONTROLLERS.contains(&d1) {
                        any_contrib = true;
                    }
                    match d1 {
                        99 | 101 => {
                            if pre.ch[c].m.is_some() && pre.ch[c].l.is_some() {
                                stats.half_reselect = true;
                            }
                            kinds[c].0 = Some(d1 == 101);
                        }
                        98 | 100 => {
                            if pre.ch[c].m.is_some() && pre.ch[c].l.is_some() {
                                stats.half_reselect = true;
                            }
                            kinds[c].1 = Some(d1 == 100);
                        }
                        38 => {
                            if pre.ch[c].m.is_none() || pre.ch[c].l.is_none() {
                                stats.v38_before_number = true;
                            }
                        }
                        _ => {}
                    }
                    if let (Some(a), Some(b)) = kinds[c] {
                        if a != b {
                            stats.mixed_kinds = true;
                        }
                    }
                }
            }
            Op::Reset => {
                api(|| sc.reset());
                rf.reset();
                if any_contrib {
                    stats.resets_mid = true;
                }
                kinds = [(None, None); 16];
            }
            _ => {}
        }
    }
    Ok(())
}

pub fn nrpn_history_outcome(ops: &[Op]) -> Result<ROutcome, Fail> {
    let mut st = NrpnStats::default();
    check_nrpn_history(ops, &mut st)?;
    let mut classes = Vec::new();
    if st.reports > 0 {
        classes.push("has_report");
    }
    if st.fourteen > 0 {
        classes.push("has_14_bit_report");
    }
    if st.resets_mid {
        classes.push("reset_mid_sequence");
    }
    if st.half_reselect {
        classes.push("re_selection_of_one_half");
    }
    if st.v38_before_number {
        classes.push("cc38_before_number");
    }
    if st.mixed_kinds {
        classes.push("mixed_registered_non_registered");
    }
    let nontrivial = st.reports > 0 && (st.resets_mid || st.half_reselect || st.v38_before_number || st.mixed_kinds);
    Ok(ROutcome { nontrivial, classes, hash: hash64(&ops) })
}

/// prefix that installs a per-channel state, followed by one probe input
fn state_ops(ch: u8, m: Option<u8>, l: Option<u8>, z: Option<u8>, kinds: u8, cn: u8, v: u8) -> Vec<Op> {
    let mut ops = Vec::with_capacity(4);
    let mo = m.map(|x| Op::cc(ch, if kinds & 1 == 1 { 101 } else { 99 }, x));
    let lo = l.map(|x| Op::cc(ch, if kinds & 2 == 2 { 100 } else { 98 }, x));
    if kinds & 4 == 4 {
        ops.extend(lo);
        ops.extend(mo);
    } else {
        ops.extend(mo);
        ops.extend(lo);
    }
    if let Some(x) = z {
        ops.push(Op::cc(ch, 38, x));
    }
    ops.push(Op::cc(ch, cn, v));
    ops
}

#[derive(Clone)]
struct BState {
    sc: ParameterNumberMessageScanner,
    rf: RefNrpn,
}

pub fn nrpn_alphabet(channels: &[u8], values: &[u8]) -> Vec<Op> {
    let mut ops = Vec::new();
    for &ch in channels {
        for cn in NRPN_CONTROLLERS {
            for &v in values {
                ops.push(Op::cc(ch, cn, v));
            }
        }
        // every Control Change that is not an (N)RPN controller must be transparent
        for cn in 0..128u8 {
            if !NRPN_CONTROLLERS.contains(&cn) {
                ops.push(Op::cc(ch, cn, 100));
            }
        }
        ops.push(Op::Feed { carrier: 0, s: 0x90 | ch, d1: 60, d2: 100 });
    }
    ops.push(Op::Reset);
    ops.push(Op::Feed { carrier: 1, s: 0xFE, d1: 0, d2: 0 });
    ops
}

fn bfs_step(st: &BState, op: &Op) -> Result<Option<BState>, Fail> {
    let mut n = st.clone();
    match *op {
        Op::Feed { carrier, s, d1, d2 } => {
            let got = feed_nrpn(&mut n.sc, carrier, s, d1, d2);
            let want = n.rf.feed(s, d1, d2);
            let gobs = got.as_ref().map(observe_pn);
            if gobs != want {
                let kind = match (gobs.is_some(), want.is_some()) {
                    (true, false) => "unjustified_report",
                    (false, true) => "missing_report",
                    _ => "wrong_report",
                };
                return fail(format!("bfs/{}", kind), format!("{:?}: scanner reported {:?}, reference {:?}", op, gobs, want));
            }
        }
        Op::Reset => {
            api(|| n.sc.reset());
            n.rf.reset();
        }
        _ => return Ok(None),
    }
    Ok(Some(n))
}

pub fn run_c11(ctx: &Ctx) -> Report {
    let mut subs = Vec::new();
    let mut configs: Vec<(String, Vec<u8>, Vec<u8>)> = vec![
        ("bfs_one_channel".into(), vec![3], vec![0, 1, 6, 127]),
        ("bfs_one_channel_manager_0".into(), vec![0], vec![0, 6, 127]),
        ("bfs_two_channels".into(), vec![0, 15], vec![0, 1, 127]),
        ("bfs_two_channels_0_1_spec_values".into(), vec![0, 1], vec![0, 6]),
        ("bfs_two_channels_15_13_spec_values".into(), vec![15, 13], vec![2, 6]),
    ];
    if ctx.reduced {
        configs.truncate(1);
    }
    if ctx.thorough() {
        configs.push(("bfs_one_channel_5_values".into(), vec![9], vec![0, 1, 2, 64, 127]));
        configs.push(("bfs_two_channels_7_8".into(), vec![7, 8], vec![0, 1, 127]));
    }
    for (name, chans, values) in configs {
        let alphabet = nrpn_alphabet(&chans, &values);
        let t0 = std::time::Instant::now();
        let out = bfs(
            ctx,
            // every other exploration starts from a Default-constructed scanner
            BState { sc: if name.len() % 2 == 0 { ParameterNumberMessageScanner::default() } else { ParameterNumberMessageScanner::new() }, rf: RefNrpn::default() },
            alphabet.len(),
            |s, i| bfs_step(s, &alphabet[i]),
            |s| key_of(&s.sc, &[hash64(&s.rf)]),
            if chans.len() == 1 { 60_000 } else { 600_000 },
        );
        let mut sub = Sub::new(
            &name,
            &format!("all histories of every length on channels {:?} over the 8 (N)RPN controllers x values {:?} + reset + every non-(N)RPN controller + note + system message (fixpoint of scanner state x reference state)", chans, values),
            "non-trivial = transition taken from a non-initial state",
            out.complete && out.failure.is_none(),
        );
        sub.evals = out.transitions;
        sub.states = out.states.len() as u64;
        sub.transitions = out.transitions;
        sub.nontrivial = out.transitions.saturating_sub(alphabet.len() as u64);
        sub.wall_ms = t0.elapsed().as_millis() as u64;
        sub.class_n("bfs_depth", out.max_depth as u64);
        let last = out.states.len() - 1;
        let path: Vec<Op> = out.path_to(last).iter().map(|i| alphabet[*i]).collect();
        sub.samples.push(json!({"kind": "history", "ops": ops_json(&path), "note": "shortest history reaching the last discovered state"}));
        if let Some((path, f)) = out.failure {
            let ops: Vec<Op> = path.iter().map(|i| alphabet[*i]).collect();
            sub.record(f, || json!({"kind": "history", "ops": ops_json(&ops)}), ops.len() as u128);
        }
        subs.push(sub);
    }
    // every constructed per-channel state x every next input (the property's own quantifier)
    {
        let thorough = ctx.thorough();
        let vals: Vec<Option<u8>> = if thorough { std::iter::once(None).chain((0..128u8).map(Some)).collect() } else { vec![None, Some(0), Some(1), Some(63), Some(64), Some(126), Some(127)] };
        let nv = vals.len() as u64;
        let mut inputs: Vec<(u8, u8)> = Vec::new();
        for cn in [6u8, 96, 97] {
            for v in 0..128u8 {
                inputs.push((cn, v));
            }
        }
        for cn in [38u8, 98, 99, 100, 101] {
            for v in if thorough { vec![0u8, 127] } else { (0..128u8).collect::<Vec<_>>() } {
                inputs.push((cn, v));
            }
        }
        inputs.push((7, 1));
        inputs.push((121, 0));
        let ni = inputs.len() as u64;
        let proto = Sub::new(
            "state_x_input",
            &format!("every per-channel state built from (number MSB, number LSB, their kinds and order, data LSB) with each byte in {} x {} next inputs, compared with the reference scanner (state installed by feeding the Control Changes that produce it)", if thorough { "{none, 0..127}" } else { "{none,0,1,63,64,126,127}" }, ni),
            "non-trivial = state with at least one byte stored",
            thorough,
        );
        let total = nv * nv * nv * 8 * ni;
        let stride = ctx.pick(13u64, 1, 1);
        let mut sub = par_enum(ctx, &proto, total / stride, |sub, j| {
            let i = j * stride;
            let (cn, v) = inputs[(i % ni) as usize];
            let r = i / ni;
            let kinds = (r % 8) as u8;
            let r = r / 8;
            let (m, l, z) = (vals[(r % nv) as usize], vals[((r / nv) % nv) as usize], vals[(r / (nv * nv)) as usize]);
            let ch = (r % 16) as u8;
            sub.eval(
                i as u128,
                || json!({"kind": "history", "ops": ops_json(&state_ops(ch, m, l, z, kinds, cn, v))}),
                || {
                    let ops = state_ops(ch, m, l, z, kinds, cn, v);
                    let mut st = NrpnStats::default();
                    check_nrpn_history(&ops, &mut st)?;
                    Ok(ops.len() > 1)
                },
            );
        });
        sub.samples.push(json!({"kind": "history", "ops": ops_json(&state_ops(3, Some(3), Some(36), Some(24), 5, 6, 117))}));
        subs.push(sub);
    }
    // repetition probes (wrapping counters)
    {
        let ch = 6u8;
        let alphabet = nrpn_alphabet(&[ch], &[0, 127]);
        let t0 = std::time::Instant::now();
        let out = bfs(
            ctx,
            BState { sc: ParameterNumberMessageScanner::new(), rf: RefNrpn::default() },
            alphabet.len(),
            |s, i| bfs_step(s, &alphabet[i]),
            |s| key_of(&s.sc, &[hash64(&s.rf)]),
            30_000,
        );
        let mut sub = Sub::new(
            "repetition_probes",
            &format!("from every state of the abstract fixpoint on channel {} (8 controllers x values {{0,127}}), every operation (incl. reset) repeated k times, k in {{255,256,257}} (thorough: also 65535-65537 from 8 states), followed by every operation once; oracle as in the BFS", ch),
            "non-trivial = every probe",
            false,
        );
        let mut failure = out.failure.as_ref().map(|(p, f)| (p.clone(), f.clone()));
        if failure.is_none() {
            let (tr, f) = repetition_probes(ctx, &out, alphabet.len(), |s, i| bfs_step(s, &alphabet[i]), &[255, 256, 257], if ctx.reduced { 8 } else { usize::MAX });
            sub.evals += tr;
            failure = f;
            if failure.is_none() && ctx.thorough() {
                let (tr, f) = repetition_probes(ctx, &out, alphabet.len(), |s, i| bfs_step(s, &alphabet[i]), &[65535, 65536, 65537], 8);
                sub.evals += tr;
                failure = f;
            }
        }
        sub.nontrivial = sub.evals;
        sub.states = out.states.len() as u64;
        sub.wall_ms = t0.elapsed().as_millis() as u64;
        sub.samples.push(json!({"kind": "history", "ops": ops_json(&[Op::cc(ch, 38, 1), Op::cc(ch, 99, 0), Op::cc(ch, 99, 0), Op::cc(ch, 6, 2)]), "note": "shape of a probe: state, operation repeated k times, one more operation"}));
        if let Some((path, f)) = failure {
            let ops: Vec<Op> = path.iter().map(|i| alphabet[*i]).collect();
            sub.record(f, || json!({"kind": "history", "ops": ops_json(&ops)}), ops.len() as u128);
        }
        subs.push(sub);
    }
    {
        let cases = ctx.pick(3_000u64, 150_000, 1_000_000);
        let max_len = ctx.pick(32usize, 64, 400);
        let proto = Sub::new(
            "random_histories",
            "seeded random histories over the full 16-channel alphabet (all message types, four carriers, resets), compared call by call with the reference scanner",
            "non-trivial = history with a report and one of: reset mid-sequence, re-selection of one half only, CC 38 before the number, mixed registered/non-registered halves; distinct by hash",
            false,
        );
        let mut sub = par_proptest(
            ctx,
            &proto,
            cases,
            || history_strategy(Kind::Nrpn, max_len),
            |h: &RawHistory| json!({"kind": "history", "ops": ops_json(&concretize(Kind::Nrpn, h, 0))}),
            |h: &RawHistory| nrpn_history_outcome(&concretize(Kind::Nrpn, h, 0)),
        );
        sub.floor("has_report", 100);
        sub.floor("has_14_bit_report", 30);
        subs.push(sub);
    }
    Report {
        subs,
        rule: "style B: BFS with (Debug of scanner, reference state) pruning to a fixpoint on one and two channels over a value-abstracted alphabet; style R: proptest histories over the full alphabet; oracle: reference scanner keeping latest number MSB/LSB, kind of the most recent number byte and the latest CC 38 after it".into(),
        assumptions: vec!["pruning assumes the scanner's derived Debug prints its whole state".into()],
    }
}

pub fn replay_c11(_sub: &str, case: &Value) -> Option<CheckResult> {
    let ops = ops_from(&case["ops"])?;
    Some(nrpn_history_outcome(&ops).map(|o| o.nontrivial))
}

#[allow(dead_code)]
fn _unused(_: RawShortMessage, _: StructuredShortMessage, _: Foreign, _: ForeignTuple) {}
