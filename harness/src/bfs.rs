//! Style B: bounded-exhaustive sequence generation with pruning. Level-synchronous BFS over
//! operation sequences; a sequence is not extended when the pair (implementation state, oracle
//! state) it ends in has been seen (identified by a 128-bit key of the scanner's `Debug` output
//! plus the oracle state). The first violating sequence found is a shortest one.
use crate::engine::*;
use std::collections::HashSet;
use std::fmt::Write;

pub struct BfsOut<S> {
    pub states: Vec<S>,
    pub depth_of: Vec<u32>,
    pub transitions: u64,
    pub complete: bool,
    pub max_depth: u32,
    /// (operation-index path from the initial state, failure)
    pub failure: Option<(Vec<usize>, Fail)>,
    parents: Vec<(u32, u32)>,
}

impl<S> BfsOut<S> {
    pub fn path_to(&self, mut idx: usize) -> Vec<usize> {
        let mut p = Vec::new();
        while idx != 0 {
            let (par, op) = self.parents[idx];
            p.push(op as usize);
            idx = par as usize;
        }
        p.reverse();
        p
    }
}

pub type Key = (u64, u64);

/// 128-bit key of a `Debug` rendering plus extra words.
pub fn key_of(debug: &dyn std::fmt::Debug, extra: &[u64]) -> Key {
    struct H(u64, u64);
    impl Write for H {
        fn write_str(&mut self, s: &str) -> std::fmt::Result {
            for b in s.bytes() {
                self.0 = (self.0 ^ b as u64).wrapping_mul(0x100000001b3);
                self.1 = (self.1.rotate_left(5) ^ b as u64).wrapping_mul(0x9E3779B97F4A7C15);
            }
            Ok(())
        }
    }
    let mut h = H(0xcbf29ce484222325, 0x243F6A8885A308D3);
    let _ = write!(h, "{:?}", debug);
    for e in extra {
        let _ = write!(h, "|{}", e);
    }
    (h.0, splitmix(h.1))
}

/// `step(state, op_index)` runs the real code and the oracle: `Ok(Some(next))`, `Ok(None)` when
/// the operation is not applicable in that state, `Err` on a violation.
pub fn bfs<S: Clone + Send + Sync>(
    ctx: &Ctx,
    init: S,
    nops: usize,
    step: impl Fn(&S, usize) -> Result<Option<S>, Fail> + Sync,
    key: impl Fn(&S) -> Key + Sync,
    max_states: usize,
) -> BfsOut<S> {
    let mut states: Vec<S> = vec![init];
    let mut parents: Vec<(u32, u32)> = vec![(0, 0)];
    let mut depth_of: Vec<u32> = vec![0];
    let mut seen: HashSet<Key> = HashSet::new();
    seen.insert(key(&states[0]));
    let mut frontier: Vec<usize> = vec![0];
    let mut transitions = 0u64;
    let mut depth = 0u32;
    let mut complete = true;
    let threads = ctx.threads.max(1);
    while !frontier.is_empty() {
        depth += 1;
        let chunk = (frontier.len() + threads - 1) / threads;
        type Cand<S> = (usize, usize, S, Key);
        let results: Vec<(Vec<Cand<S>>, u64, Option<(usize, usize, Fail)>)> = std::thread::scope(|sc| {
            let mut hs = Vec::new();
            for part in frontier.chunks(chunk.max(1)) {
                let states = &states;
                let seen = &seen;
                let step = &step;
                let key = &key;
                hs.push(sc.spawn(move || {
                    let mut cands: Vec<Cand<S>> = Vec::new();
                    let mut local: HashSet<Key> = HashSet::new();
                    let mut tr = 0u64;
                    let mut failure = None;
                    'outer: for &si in part {
                        for op in 0..nops {
                            let r = guarded(|| step(&states[si], op));
                            match r {
                                Ok(Ok(Some(ns))) => {
                                    tr += 1;
                                    let k = key(&ns);
                                    if !seen.contains(&k) && local.insert(k) {
                                        cands.push((si, op, ns, k));
                                    }
                                }
                                Ok(Ok(None)) => {}
                                Ok(Err(f)) => {
                                    tr += 1;
                                    failure = Some((si, op, f));
                                    break 'outer;
                                }
                                Err(p) => {
                                    tr += 1;
                                    failure = Some((si, op, Fail { sig: "panic".into(), detail: format!("unexpected panic: {}", p) }));
                                    break 'outer;
                                }
                            }
                        }
                    }
                    (cands, tr, failure)
                }));
            }
            hs.into_iter().map(|h| h.join().expect("bfs worker died")).collect()
        });
        let mut next: Vec<usize> = Vec::new();
        let mut first_failure: Option<(usize, usize, Fail)> = None;
        for (cands, tr, failure) in results {
            transitions += tr;
            if let Some(f) = failure {
                let better = match &first_failure {
                    None => true,
                    Some(old) => (f.0, f.1) < (old.0, old.1),
                };
                if better {
                    first_failure = Some(f);
                }
            }
            for (si, op, ns, k) in cands {
                if seen.insert(k) {
                    if states.len() >= max_states {
                        complete = false;
                        continue;
                    }
                    states.push(ns);
                    parents.push((si as u32, op as u32));
                    depth_of.push(depth);
                    next.push(states.len() - 1);
                }
            }
        }
        if let Some((si, op, f)) = first_failure {
            let out = BfsOut { states, depth_of, transitions, complete: false, max_depth: depth, failure: None, parents };
            let mut path = out.path_to(si);
            path.push(op);
            return BfsOut { failure: Some((path, f)), ..out };
        }
        frontier = next;
    }
    BfsOut { states, depth_of, transitions, complete, max_depth: depth.saturating_sub(1), failure: None, parents }
}

/// Repetition probes: counters that wrap (an "O(1) reset" by generation number, a lazily
/// invalidated cache tagged with a u8 / u16 counter) are invisible to a breadth-first search whose
/// state space they multiply. From every explored state, every operation `a` is therefore applied
/// k times in a row, and at each k in `ks` every operation `b` is tried once (the oracle inside
/// `step` judges every application). Returns (transitions, first failure as an operation path).
pub fn repetition_probes<S: Clone + Send + Sync>(
    ctx: &Ctx,
    out: &BfsOut<S>,
    nops: usize,
    step: impl Fn(&S, usize) -> Result<Option<S>, Fail> + Sync,
    ks: &[usize],
    max_states: usize,
) -> (u64, Option<(Vec<usize>, Fail)>) {
    let kmax = ks.iter().copied().max().unwrap_or(0);
    let n = out.states.len().min(max_states);
    let threads = ctx.threads.max(1);
    let chunk = (n + threads - 1) / threads.max(1);
    let idx: Vec<usize> = (0..n).collect();
    let results: Vec<(u64, Option<(usize, Vec<usize>, Fail)>)> = std::thread::scope(|sc| {
        let mut hs = Vec::new();
        for part in idx.chunks(chunk.max(1)) {
            let step = &step;
            let states = &out.states;
            hs.push(sc.spawn(move || {
                let mut tr = 0u64;
                for &si in part {
                    for a in 0..nops {
                        let mut cur = states[si].clone();
                        for k in 1..=kmax {
                            tr += 1;
                            match guarded(|| step(&cur, a)) {
                                Ok(Ok(Some(n))) => cur = n,
                                Ok(Ok(None)) => break,
                                Ok(Err(f)) => return (tr, Some((si, vec![a; k], f))),
                                Err(p) => return (tr, Some((si, vec![a; k], Fail { sig: "panic".into(), detail: format!("unexpected panic: {}", p) }))),
                            }
                            if ks.contains(&k) {
                                for b in 0..nops {
                                    tr += 1;
                                    match guarded(|| step(&cur, b)) {
                                        Ok(Ok(_)) => {}
                                        Ok(Err(f)) => {
                                            let mut p = vec![a; k];
                                            p.push(b);
                                            return (tr, Some((si, p, f)));
                                        }
                                        Err(pn) => {
                                            let mut p = vec![a; k];
                                            p.push(b);
                                            return (tr, Some((si, p, Fail { sig: "panic".into(), detail: format!("unexpected panic: {}", pn) })));
                                        }
                                    }
                                }
                            }
                        }
                    }
                }
                (tr, None)
            }));
        }
        hs.into_iter().map(|h| h.join().expect("probe worker died")).collect()
    });
    let mut tr = 0;
    let mut best: Option<(usize, Vec<usize>, Fail)> = None;
    for (t, f) in results {
        tr += t;
        if let Some(f) = f {
            let better = match &best {
                None => true,
                Some(b) => (f.1.len() + out.depth_of[f.0] as usize, f.0) < (b.1.len() + out.depth_of[b.0] as usize, b.0),
            };
            if better {
                best = Some(f);
            }
        }
    }
    (tr, best.map(|(si, tail, f)| {
        let mut p = out.path_to(si);
        p.extend(tail);
        (p, f)
    }))
}
