//! Verification harness for helgoboss-midi (see /verif/DESIGN.md).
#![allow(clippy::all)]
pub mod engine;
pub mod impls;
pub mod refmodel;
pub mod p_short;
pub mod p_ints;
pub mod ops;
pub mod bfs;
pub mod p_factory;
pub mod p_cc14;
pub mod p_nrpn;
pub mod pollobs;
pub mod p_meta;
pub mod p_rt;
pub mod fuzzing;
#[cfg(feature = "hm_serde")]
pub mod p_serde;
#[cfg(feature = "hm_std")]
pub mod p_polling;
#[cfg(feature = "hm_std")]
pub mod p_grammar;

use engine::{CheckResult, Ctx, Report};
use serde_json::Value;

pub fn run_property(ctx: &Ctx) -> Option<Report> {
    match ctx.prop.as_str() {
        "C01" => Some(p_short::run_c01(ctx)),
        "C02" => Some(p_short::run_c02(ctx)),
        "C03" => Some(p_short::run_c03(ctx)),
        #[cfg(feature = "hm_serde")]
        "C04" | "C09" if ctx.config == "serde" => Some(p_serde::run_serde_part(ctx, &ctx.prop)),
        "C04" => Some(p_ints::run_ints(ctx, p_ints::Mode::C04)),
        "C05" => Some(p_ints::run_ints(ctx, p_ints::Mode::C05)),
        "C06" => Some(p_factory::run_c06(ctx)),
        #[cfg(feature = "hm_serde")]
        "C07" if ctx.config == "serde" => Some(p_serde::run_c07_serde(ctx)),
        "C07" => Some(p_cc14::run_c07(ctx)),
        "C08" => Some(p_cc14::run_c08(ctx)),
        "C09" => Some(p_nrpn::run_c09(ctx)),
        "C10" => Some(p_nrpn::run_c10(ctx)),
        "C11" => Some(p_nrpn::run_c11(ctx)),
        #[cfg(feature = "hm_serde")]
        "C19" => Some(p_serde::run_c19(ctx)),
        "C18" => Some(p_rt::run_c18(ctx)),
        "C15" => Some(p_meta::run_c15(ctx)),
        "C16" => Some(p_meta::run_c16(ctx)),
        "C17" => Some(p_meta::run_c17(ctx)),
        #[cfg(feature = "hm_std")]
        "C12" => Some(p_grammar::run_c12(ctx)),
        #[cfg(feature = "hm_std")]
        "C13" => Some(p_polling::run_c13(ctx)),
        #[cfg(feature = "hm_std")]
        "C14" => Some(p_polling::run_c14(ctx)),
        _ => None,
    }
}

pub fn replay_case(prop: &str, sub: &str, case: &Value) -> Option<CheckResult> {
    match prop {
        "C01" => p_short::replay_c01(sub, case),
        "C02" => p_short::replay_c02(sub, case),
        "C03" => p_short::replay_c03(sub, case),
        #[cfg(feature = "hm_serde")]
        "C04" | "C09" if sub.starts_with("serde/") => p_serde::replay_c19(sub, case),
        "C04" => p_ints::replay_ints(p_ints::Mode::C04, sub, case),
        "C05" => p_ints::replay_ints(p_ints::Mode::C05, sub, case),
        "C06" => p_factory::replay_c06(sub, case),
        #[cfg(feature = "hm_serde")]
        "C07" if sub == "creation_by_deserialization" => p_serde::replay_c19(sub, case),
        "C07" => p_cc14::replay_c07(sub, case),
        "C08" => p_cc14::replay_c08(sub, case),
        "C09" => p_nrpn::replay_c09(sub, case),
        "C10" => p_nrpn::replay_c10(sub, case),
        "C11" => p_nrpn::replay_c11(sub, case),
        #[cfg(feature = "hm_serde")]
        "C19" => p_serde::replay_c19(sub, case),
        "C18" => p_rt::replay_c18(sub, case),
        "C15" | "C16" | "C17" => p_meta::replay_meta(case),
        #[cfg(feature = "hm_std")]
        "C12" => p_grammar::replay_c12(sub, case),
        #[cfg(feature = "hm_std")]
        "C13" | "C14" => p_polling::replay_polling(prop, sub, case),
        _ => None,
    }
}
