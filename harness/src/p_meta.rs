//! Metamorphic / differential properties over all three scanners:
//! C15 (channel isolation), C16 (transparency of non-contributing messages, predicates),
//! C17 (reset == starting over, new == default, copies evolve identically and independently).
use crate::bfs::*;
use crate::engine::*;
use crate::ensure;
use crate::ops::*;
use crate::refmodel::*;
use helgoboss_midi::{ControlChange14BitMessageScanner, ParameterNumberMessageScanner};
use proptest::prelude::*;
use serde_json::{json, Value};
use std::fmt::Debug;

#[derive(Clone, Copy, PartialEq, Eq, Debug, Hash)]
pub enum Rep {
    Cc14(u8, u8, u16),
    Pn(PnReport),
}

impl Rep {
    pub fn channel(&self) -> u8 {
        match self {
            Rep::Cc14(c, _, _) => *c,
            Rep::Pn(p) => p.channel,
        }
    }
}

pub type Outs = [Option<Rep>; 2];

/// Uniform view of the three scanners.
pub trait Sc: Copy + PartialEq + Debug + Send + Sync + 'static {
    const KIND: Kind;
    const NAME: &'static str;
    fn make(timeout_ns: u64) -> Self;
    fn make_default() -> Self;
    fn feed_(&mut self, carrier: u8, s: u8, d1: u8, d2: u8) -> Outs;
    fn poll_(&mut self, _c: u8) -> Outs {
        [None, None]
    }
    fn reset_(&mut self);
    fn set_clock_(_now: u64) {}
    fn contributes(cn: u8) -> bool;
}

impl Sc for ControlChange14BitMessageScanner {
    const KIND: Kind = Kind::Cc14;
    const NAME: &'static str = "cc14";
    fn make(_t: u64) -> Self {
        api(ControlChange14BitMessageScanner::new)
    }
    fn make_default() -> Self {
        api(ControlChange14BitMessageScanner::default)
    }
    fn feed_(&mut self, carrier: u8, s: u8, d1: u8, d2: u8) -> Outs {
        [feed_cc14(self, carrier, s, d1, d2).as_ref().map(|m| {
            let o = observe_cc14(m);
            Rep::Cc14(o.0, o.1, o.2)
        }), None]
    }
    fn reset_(&mut self) {
        api(|| self.reset())
    }
    fn contributes(cn: u8) -> bool {
        cn < 64
    }
}

impl Sc for ParameterNumberMessageScanner {
    const KIND: Kind = Kind::Nrpn;
    const NAME: &'static str = "nrpn";
    fn make(_t: u64) -> Self {
        api(ParameterNumberMessageScanner::new)
    }
    fn make_default() -> Self {
        api(ParameterNumberMessageScanner::default)
    }
    fn feed_(&mut self, carrier: u8, s: u8, d1: u8, d2: u8) -> Outs {
        [feed_nrpn(self, carrier, s, d1, d2).as_ref().map(|m| Rep::Pn(observe_pn(m))), None]
    }
    fn reset_(&mut self) {
        api(|| self.reset())
    }
    fn contributes(cn: u8) -> bool {
        NRPN_CONTROLLERS.contains(&cn)
    }
}

#[cfg(feature = "hm_std")]
impl Sc for helgoboss_midi::PollingParameterNumberMessageScanner {
    const KIND: Kind = Kind::Polling;
    const NAME: &'static str = "polling";
    fn make(t: u64) -> Self {
        crate::p_polling::new_scanner(t)
    }
    fn make_default() -> Self {
        api(helgoboss_midi::PollingParameterNumberMessageScanner::default)
    }
    fn feed_(&mut self, carrier: u8, s: u8, d1: u8, d2: u8) -> Outs {
        let o = polling::feed_polling(self, carrier, s, d1, d2);
        [o[0].as_ref().map(|m| Rep::Pn(observe_pn(m))), o[1].as_ref().map(|m| Rep::Pn(observe_pn(m)))]
    }
    fn poll_(&mut self, c: u8) -> Outs {
        [api(|| self.poll(h_ch(c))).as_ref().map(|m| Rep::Pn(observe_pn(m))), None]
    }
    fn reset_(&mut self) {
        api(|| self.reset())
    }
    fn set_clock_(now: u64) {
        polling::set_clock(now)
    }
    fn contributes(cn: u8) -> bool {
        NRPN_CONTROLLERS.contains(&cn)
    }
}

#[cfg(feature = "hm_std")]
const HAVE_CLOCK: bool = polling::HAVE_CLOCK;
#[cfg(not(feature = "hm_std"))]
const HAVE_CLOCK: bool = false;

/// scanner + harness clock
#[derive(Clone, Copy)]
pub struct Run<S: Sc> {
    pub sc: S,
    pub now: u64,
}

impl<S: Sc> Run<S> {
    pub fn new(timeout: u64) -> Self {
        S::set_clock_(0);
        Run { sc: S::make(timeout), now: 0 }
    }
    pub fn step(&mut self, op: &Op) -> Outs {
        S::set_clock_(self.now);
        match *op {
            Op::Feed { carrier, s, d1, d2 } => self.sc.feed_(carrier, s, d1, d2),
            Op::Poll(c) => self.sc.poll_(c),
            Op::Advance(d) => {
                if HAVE_CLOCK && S::KIND == Kind::Polling {
                    self.now = self.now.saturating_add(d);
                }
                [None, None]
            }
            Op::Reset => {
                self.sc.reset_();
                [None, None]
            }
        }
    }
    pub fn eq_state(&self, other: &Run<S>) -> bool {
        S::set_clock_(self.now);
        self.sc == other.sc
    }
}

fn timeout_for<S: Sc>(idx: u8) -> u64 {
    if S::KIND != Kind::Polling {
        0
    } else if HAVE_CLOCK {
        [0u64, 1, 1_000_000, 10_000_000_000, u64::MAX, u64::MAX - 1][idx as usize % 6]
    } else {
        [0u64, u64::MAX][idx as usize % 2]
    }
}

fn tjson(t: u64) -> Value {
    match t {
        u64::MAX => json!("max"),
        x if x == u64::MAX - 1 => json!("u64_max_seconds"),
        x if x == u64::MAX - 2 => json!("2_pow_64_ns"),
        x => json!(x),
    }
}

fn tfrom(v: &Value) -> Option<u64> {
    match v.as_str() {
        Some("max") => Some(u64::MAX),
        Some("u64_max_seconds") => Some(u64::MAX - 1),
        Some("2_pow_64_ns") => Some(u64::MAX - 2),
        _ => json_u64(v),
    }
}

// ---------------------------------------------------------------------------------------------
// C15: isolation (projection oracle)
// ---------------------------------------------------------------------------------------------

pub fn check_projection<S: Sc>(timeout: u64, ops: &[Op]) -> Result<(u32, u32), Fail> {
    let mut full = Run::<S>::new(timeout);
    let mut outs: Vec<Outs> = Vec::with_capacity(ops.len());
    for (i, op) in ops.iter().enumerate() {
        let before = full;
        let o = full.step(op);
        // every reported message carries the channel of the input or poll that triggered it
        for r in o.iter().flatten() {
            ensure!(Some(r.channel()) == op.channel(), format!("{}/report_carries_other_channel", S::NAME), "op #{} {:?} reported {:?}", i, op, r);
        }
        // system messages (no channel) report nothing and change nothing
        if let Op::Feed { s, .. } = op {
            if *s >= 0xF0 {
                ensure!(o == [None, None], format!("{}/system_message_reports", S::NAME), "op #{} {:?} reported {:?}", i, op, o);
                ensure!(full.eq_state(&before), format!("{}/system_message_changes_state", S::NAME), "op #{} {:?} changed the scanner", i, op);
            }
        }
        outs.push(o);
    }
    let mut used: [bool; 16] = [false; 16];
    for op in ops {
        if let Some(c) = op.channel() {
            used[c as usize] = true;
        }
    }
    let mut reporting = 0u32;
    let mut active = 0u32;
    for c in 0..16u8 {
        if !used[c as usize] {
            continue;
        }
        active += 1;
        let mut own = Run::<S>::new(timeout);
        let mut any = false;
        for (i, op) in ops.iter().enumerate() {
            match op {
                Op::Reset | Op::Advance(_) => {
                    own.step(op);
                }
                _ if op.channel() == Some(c) => {
                    let o = own.step(op);
                    if o != outs[i] {
                        return fail(
                            format!("{}/interleaved_differs_from_own_scanner", S::NAME),
                            format!("op #{} {:?}: interleaved stream reported {:?}, a scanner fed only channel {} reported {:?}", i, op, outs[i], c, o),
                        );
                    }
                    any |= o[0].is_some();
                }
                _ => {}
            }
        }
        if any {
            reporting += 1;
        }
    }
    Ok((active, reporting))
}

fn projection_outcome<S: Sc>(timeout: u64, ops: &[Op]) -> Result<ROutcome, Fail> {
    let (active, reporting) = check_projection::<S>(timeout, ops)?;
    let mut classes = vec![];
    if reporting >= 2 {
        classes.push("two_or_more_reporting_channels");
    }
    // channels i and i+8 both active
    let mut m = 0u16;
    for op in ops {
        if let Some(c) = op.channel() {
            m |= 1 << c;
        }
    }
    if (0..8).any(|i| m & (1 << i) != 0 && m & (1 << (i + 8)) != 0) {
        classes.push("channels_i_and_i_plus_8_active");
    }
    let _ = active;
    Ok(ROutcome { nontrivial: reporting >= 2, classes, hash: hash64(&(timeout, ops)) })
}

#[derive(Clone, Debug)]
pub struct MetaCase {
    pub hist: RawHistory,
    pub suffix: RawHistory,
    pub timeout_idx: u8,
    pub inserts: Vec<(u16, u8, u8, u8, u8)>,
}

fn meta_strategy(kind: Kind, max_len: usize) -> impl Strategy<Value = MetaCase> {
    (
        history_strategy(kind, max_len),
        history_strategy(kind, max_len / 2 + 1),
        0u8..6,
        prop::collection::vec((any::<u16>(), any::<u8>(), any::<u8>(), any::<u8>(), any::<u8>()), 0..12),
    )
        .prop_map(|(hist, suffix, timeout_idx, inserts)| MetaCase { hist, suffix, timeout_idx, inserts })
}

/// two-channel product to a fixpoint (or state cap): scanner fed both channels vs one scanner per channel
fn bfs_pair<S: Sc>(ctx: &Ctx, i: u8, j: u8, timeout: u64, cap_states: usize) -> (u64, u64, bool, Option<(Vec<Op>, Fail)>) {
    #[derive(Clone)]
    struct St<S: Sc> {
        full: Run<S>,
        a: Run<S>,
        b: Run<S>,
    }
    let mut alphabet: Vec<Op> = Vec::new();
    for &c in &[i, j] {
        match S::KIND {
            Kind::Cc14 => {
                for cn in [1u8, 33, 2] {
                    for v in [0u8, 1] {
                        alphabet.push(Op::cc(c, cn, v));
                    }
                }
            }
            _ => {
                for cn in [99u8, 98, 101, 6, 38, 96] {
                    for v in [0u8, 1] {
                        alphabet.push(Op::cc(c, cn, v));
                    }
                }
                if S::KIND == Kind::Polling {
                    alphabet.push(Op::Poll(c));
                }
            }
        }
    }
    alphabet.push(Op::Reset);
    if S::KIND == Kind::Polling && timeout > 0 && HAVE_CLOCK {
        alphabet.push(Op::Advance(timeout));
    }
    let cap = 2 * timeout + 2;
    let step = |s: &St<S>, k: usize| -> Result<Option<St<S>>, Fail> {
        let op = alphabet[k];
        let mut n = s.clone();
        let o = n.full.step(&op);
        for r in o.iter().flatten() {
            ensure!(Some(r.channel()) == op.channel(), format!("{}/pair/report_carries_other_channel", S::NAME), "{:?} reported {:?}", op, r);
        }
        match op {
            Op::Reset | Op::Advance(_) => {
                n.a.step(&op);
                n.b.step(&op);
            }
            _ => {
                let own = if op.channel() == Some(i) { &mut n.a } else { &mut n.b };
                let oo = own.step(&op);
                ensure!(oo == o, format!("{}/pair/interleaved_differs_from_own_scanner", S::NAME), "{:?}: two-channel scanner reported {:?}, single-channel scanner {:?}", op, o, oo);
            }
        }
        Ok(Some(n))
    };
    let key = |s: &St<S>| -> Key {
        S::set_clock_(s.full.now);
        #[cfg(feature = "hm_std")]
        polling::set_age_cap(cap);
        let k1 = key_of(&s.full.sc, &[]);
        let k2 = key_of(&s.a.sc, &[]);
        let k3 = key_of(&s.b.sc, &[]);
        #[cfg(feature = "hm_std")]
        polling::set_age_cap(u64::MAX);
        let _ = cap;
        (k1.0 ^ k2.0.rotate_left(21) ^ k3.0.rotate_left(42), k1.1 ^ k2.1.rotate_left(17) ^ k3.1.rotate_left(39))
    };
    let init = St { full: Run::<S>::new(timeout), a: Run::<S>::new(timeout), b: Run::<S>::new(timeout) };
    let out = bfs(ctx, init, alphabet.len(), step, key, cap_states);
    let failure = out.failure.as_ref().map(|(p, f)| (p.iter().map(|k| alphabet[*k]).collect::<Vec<Op>>(), f.clone()));
    (out.states.len() as u64, out.transitions, out.complete, failure)
}

fn c15_for<S: Sc>(ctx: &Ctx, subs: &mut Vec<Sub>) {
    // R
    {
        let cases = ctx.pick(2_000u64, 100_000, 400_000);
        let max_len = ctx.pick(32usize, 64, 300);
        let proto = Sub::new(
            &format!("{}_interleavings", S::NAME),
            &format!("{} scanner: seeded random interleavings of 1-16 per-channel histories over the full alphabet (resets{}); projection oracle: each channel's calls give the same outputs on a scanner of its own that sees all resets and time steps", S::NAME, if S::KIND == Kind::Polling { ", polls, monotone time" } else { "" }),
            "non-trivial = at least two channels that report, interleaved; distinct by hash",
            false,
        );
        let mut sub = par_proptest(
            ctx,
            &proto,
            cases,
            || meta_strategy(S::KIND, max_len),
            |c: &MetaCase| {
                let t = timeout_for::<S>(c.timeout_idx);
                json!({"kind": "projection", "scanner": S::NAME, "timeout_ns": tjson(t), "ops": ops_json(&concretize(S::KIND, &c.hist, t))})
            },
            |c: &MetaCase| {
                let t = timeout_for::<S>(c.timeout_idx);
                projection_outcome::<S>(t, &concretize(S::KIND, &c.hist, t))
            },
        );
        sub.floor("two_or_more_reporting_channels", 100);
        sub.floor("channels_i_and_i_plus_8_active", 100);
        subs.push(sub);
    }
    // B: two-channel products
    {
        let mut pairs: Vec<(u8, u8)> = Vec::new();
        if ctx.thorough() {
            for i in 0..16u8 {
                for j in 0..16u8 {
                    if i != j {
                        pairs.push((i, j));
                    }
                }
            }
        } else if S::KIND == Kind::Cc14 && !ctx.reduced {
            // cheap enough for every ordered pair in the quick tier as well
            for i in 0..16u8 {
                for j in 0..16u8 {
                    if i != j {
                        pairs.push((i, j));
                    }
                }
            }
        } else {
            for i in 0..16u8 {
                pairs.push((i, (i + 8) % 16));
                if i > 0 && S::KIND != Kind::Polling {
                    pairs.push((0, i));
                    pairs.push((i, i ^ 1));
                    pairs.push((15, 15 - i));
                }
            }
            pairs.sort();
            pairs.dedup();
            pairs.retain(|p| p.0 != p.1);
            if ctx.reduced {
                pairs.truncate(4);
            }
        }
        let timeout = if S::KIND == Kind::Polling && HAVE_CLOCK { 1 } else { 0 };
        // (real sizes: ~25 product states per pair for the 14-bit CC scanner, ~2000 for the (N)RPN scanner)
        let cap_states = match S::KIND {
            Kind::Polling => ctx.pick(3_000usize, 8_000, 300_000),
            Kind::Cc14 => 4_000,
            Kind::Nrpn => 40_000,
        };
        let mut sub = Sub::new(
            &format!("{}_two_channel_products", S::NAME),
            &format!("{} scanner: for {} ordered channel pairs (i, j), BFS over all histories on the two channels (abstract alphabet, values {{0,1}}, reset{}) comparing the two-channel scanner with one scanner per channel; pruning on the three scanner states; state cap {}", S::NAME, pairs.len(), if S::KIND == Kind::Polling { ", polls, time step = timeout 1 ns" } else { "" }, cap_states),
            "non-trivial = transition from a non-initial product state",
            true,
        );
        let t0 = std::time::Instant::now();
        for (i, j) in &pairs {
            let (states, transitions, complete, failure) = bfs_pair::<S>(ctx, *i, *j, timeout, cap_states);
            sub.states += states;
            sub.transitions += transitions;
            sub.evals += transitions;
            sub.nontrivial += transitions.saturating_sub(1);
            sub.exhaustive &= complete;
            if !complete {
                sub.class("pairs_stopped_at_state_cap");
            }
            if let Some((ops, f)) = failure {
                let len = ops.len();
                sub.record(f, || json!({"kind": "projection", "scanner": S::NAME, "timeout_ns": tjson(timeout), "ops": ops_json(&ops)}), len as u128);
                sub.exhaustive = false;
            }
        }
        sub.wall_ms = t0.elapsed().as_millis() as u64;
        sub.samples.push(json!({"kind": "pair", "scanner": S::NAME, "pairs": pairs.iter().take(6).map(|p| json!([p.0, p.1])).collect::<Vec<_>>()}));
        subs.push(sub);
    }
}

pub fn run_c15(ctx: &Ctx) -> Report {
    let mut subs = Vec::new();
    c15_for::<ControlChange14BitMessageScanner>(ctx, &mut subs);
    c15_for::<ParameterNumberMessageScanner>(ctx, &mut subs);
    // (state equality / Debug keys of the polling scanner are only meaningful with the mock clock)
    #[cfg(feature = "hm_std")]
    if HAVE_CLOCK {
        c15_for::<helgoboss_midi::PollingParameterNumberMessageScanner>(ctx, &mut subs);
    }
    Report {
        subs,
        rule: "projection oracle (differential, no model): outputs of each channel's calls in an interleaved stream equal those of a scanner fed only that channel (plus all resets and time steps); system messages report nothing and leave the scanner == its copy; every report carries the triggering channel".into(),
        assumptions: vec!["two-channel products use an abstract alphabet (values {0,1}); the polling product is cut at a state cap in the quick tier".into()],
    }
}

// ---------------------------------------------------------------------------------------------
// C16: transparency
// ---------------------------------------------------------------------------------------------

fn check_predicates(cn: u8) -> CheckResult {
    let c = h_cn(cn);
    ensure!(api(|| c.can_be_part_of_14_bit_control_change_message()) == (cn < 64), "predicate/can_be_part_of_14_bit", "controller {}", cn);
    let lsb = api(|| c.corresponding_14_bit_lsb_controller_number()).map(|x| x.get());
    ensure!(lsb == if cn < 32 { Some(cn + 32) } else { None }, "predicate/corresponding_lsb", "controller {} -> {:?}", cn, lsb);
    ensure!(api(|| c.is_parameter_number_message_controller_number()) == matches!(cn, 6 | 38 | 96..=101), "predicate/is_parameter_number_controller", "controller {}", cn);
    Ok(true)
}

fn check_lsb_constants() -> CheckResult {
    use helgoboss_midi::controller_numbers::*;
    let pairs = [
        (BANK_SELECT, BANK_SELECT_LSB, "BANK_SELECT"), (MODULATION_WHEEL, MODULATION_WHEEL_LSB, "MODULATION_WHEEL"), (BREATH_CONTROLLER, BREATH_CONTROLLER_LSB, "BREATH_CONTROLLER"),
        (FOOT_CONTROLLER, FOOT_CONTROLLER_LSB, "FOOT_CONTROLLER"), (PORTAMENTO_TIME, PORTAMENTO_TIME_LSB, "PORTAMENTO_TIME"), (DATA_ENTRY_MSB, DATA_ENTRY_MSB_LSB, "DATA_ENTRY_MSB"),
        (CHANNEL_VOLUME, CHANNEL_VOLUME_LSB, "CHANNEL_VOLUME"), (BALANCE, BALANCE_LSB, "BALANCE"), (PAN, PAN_LSB, "PAN"), (EXPRESSION_CONTROLLER, EXPRESSION_CONTROLLER_LSB, "EXPRESSION_CONTROLLER"),
        (EFFECT_CONTROL_1, EFFECT_CONTROL_1_LSB, "EFFECT_CONTROL_1"), (EFFECT_CONTROL_2, EFFECT_CONTROL_2_LSB, "EFFECT_CONTROL_2"),
        (GENERAL_PURPOSE_CONTROLLER_1, GENERAL_PURPOSE_CONTROLLER_1_LSB, "GENERAL_PURPOSE_CONTROLLER_1"), (GENERAL_PURPOSE_CONTROLLER_2, GENERAL_PURPOSE_CONTROLLER_2_LSB, "GENERAL_PURPOSE_CONTROLLER_2"),
        (GENERAL_PURPOSE_CONTROLLER_3, GENERAL_PURPOSE_CONTROLLER_3_LSB, "GENERAL_PURPOSE_CONTROLLER_3"), (GENERAL_PURPOSE_CONTROLLER_4, GENERAL_PURPOSE_CONTROLLER_4_LSB, "GENERAL_PURPOSE_CONTROLLER_4"),
    ];
    for (m, l, n) in pairs {
        ensure!(l.get() == m.get() + 32, "constants/lsb_is_msb_plus_32", "{}: msb {} lsb {}", n, m.get(), l.get());
        ensure!(api(|| m.corresponding_14_bit_lsb_controller_number()) == Some(l), "constants/lsb_matches_predicate", "{}", n);
    }
    // the controller numbers the (N)RPN scanners react to, by name
    ensure!(
        (DATA_ENTRY_MSB.get(), DATA_ENTRY_MSB_LSB.get(), DATA_INCREMENT.get(), DATA_DECREMENT.get(), NON_REGISTERED_PARAMETER_NUMBER_LSB.get(), NON_REGISTERED_PARAMETER_NUMBER_MSB.get(), REGISTERED_PARAMETER_NUMBER_LSB.get(), REGISTERED_PARAMETER_NUMBER_MSB.get()) == (6, 38, 96, 97, 98, 99, 100, 101),
        "constants/parameter_number_controllers", "named constants differ from 6/38/96-101"
    );
    Ok(true)
}

/// pool of reachable states: BFS over a single-channel abstract contributing alphabet, for the
/// given channel, plus the channel's time for the polling scanner
fn pool_for<S: Sc>(ctx: &Ctx, ch: u8, timeout: u64, max: usize) -> Vec<(Run<S>, Vec<Op>)> {
    pool_for_ext::<S>(ctx, ch, timeout, max, false)
}

/// `all_controllers`: the 14-bit CC alphabet contains every controller 0-63 (one value) instead of six controllers x two values
fn pool_for_ext<S: Sc>(ctx: &Ctx, ch: u8, timeout: u64, max: usize, all_controllers: bool) -> Vec<(Run<S>, Vec<Op>)> {
    let mut alphabet: Vec<Op> = Vec::new();
    match S::KIND {
        Kind::Cc14 if all_controllers => {
            for cn in 0..64u8 {
                alphabet.push(Op::cc(ch, cn, 1));
            }
        }
        Kind::Cc14 => {
            for cn in [0u8, 7, 31, 32, 39, 63] {
                for v in [0u8, 127] {
                    alphabet.push(Op::cc(ch, cn, v));
                }
            }
        }
        _ => {
            for cn in NRPN_CONTROLLERS {
                for v in [0u8, 127] {
                    alphabet.push(Op::cc(ch, cn, v));
                }
            }
            if S::KIND == Kind::Polling {
                alphabet.push(Op::Poll(ch));
                if timeout > 0 && HAVE_CLOCK {
                    alphabet.push(Op::Advance(timeout));
                    alphabet.push(Op::Advance(1));
                }
            }
        }
    }
    let cap = 2 * timeout + 2;
    let out = bfs(
        ctx,
        Run::<S>::new(timeout),
        alphabet.len(),
        |s, k| {
            let mut n = *s;
            n.step(&alphabet[k]);
            Ok(Some(n))
        },
        |s| {
            S::set_clock_(s.now);
            #[cfg(feature = "hm_std")]
            polling::set_age_cap(cap);
            let k = key_of(&s.sc, &[]);
            #[cfg(feature = "hm_std")]
            polling::set_age_cap(u64::MAX);
            let _ = cap;
            k
        },
        max,
    );
    (0..out.states.len()).map(|i| (out.states[i], out.path_to(i).iter().map(|k| alphabet[*k]).collect())).collect()
}

/// the non-contributing message with index k (for scanner kind S) on channel `ch`
fn transparent_messages<S: Sc>(ch: u8) -> Vec<(u8, u8, u8)> {
    let mut v = Vec::new();
    let data = [0u8, 1, 64, 127];
    // non-CC channel messages on every channel, system messages
    for hi in [0x8u8, 0x9, 0xA, 0xC, 0xD, 0xE] {
        for c in 0..16u8 {
            for &a in &data {
                for &b in &data {
                    v.push((hi << 4 | c, a, b));
                }
            }
        }
        // every first data byte (it must never be mistaken for a controller number) on 3 channels
        for c in [ch, (ch + 8) % 16, 15 - ch] {
            for a in 0..128u8 {
                for b in [0u8, 127] {
                    v.push((hi << 4 | c, a, b));
                }
            }
        }
    }
    for lo in 0..16u8 {
        for a in 0..128u8 {
            for &b in &data {
                v.push((0xF0 | lo, a, b));
            }
        }
    }
    // non-contributing controllers x all values on the state's channel and two others
    for c in [ch, (ch + 8) % 16, 15 - ch] {
        for cn in 0..128u8 {
            if S::contributes(cn) {
                continue;
            }
            for val in 0..128u8 {
                v.push((0xB0 | c, cn, val));
            }
        }
    }
    v
}

fn check_transparent<S: Sc>(state: &Run<S>, s: u8, d1: u8, d2: u8, carrier: u8) -> CheckResult {
    let mut n = *state;
    let o = n.step(&Op::Feed { carrier, s, d1, d2 });
    let what = if s >> 4 == 0xB { "control_change" } else if s >= 0xF0 { "system_message" } else { "other_channel_message" };
    ensure!(o == [None, None], format!("{}/transparent_feed_reports/{}", S::NAME, what), "feeding ({:#04x}, {}, {}) reported {:?}", s, d1, d2, o);
    ensure!(n.eq_state(state), format!("{}/transparent_feed_changes_state/{}", S::NAME, what), "feeding ({:#04x}, {}, {}) changed the scanner from {:?} to {:?}", s, d1, d2, state.sc, n.sc);
    Ok(true)
}

fn check_converse<S: Sc>(ctx: &Ctx, cn: u8) -> CheckResult {
    let timeout = if S::KIND == Kind::Polling && HAVE_CLOCK { 3 } else { 0 };
    let one = Ctx { threads: 1, ..ctx.clone() };
    let pool = pool_for_ext::<S>(&one, 5, timeout, 300, true);
    for (st, _) in pool.iter() {
        for v in [0u8, 1, 127] {
            let mut n = *st;
            let o = n.step(&Op::cc(5, cn, v));
            if o != [None, None] || !n.eq_state(st) {
                return Ok(true);
            }
        }
    }
    fail(format!("{}/controller_accepted_by_predicate_is_ignored", S::NAME), format!("controller {} never reports or changes any of {} reachable states", cn, pool.len()))
}

fn c16_for<S: Sc>(ctx: &Ctx, subs: &mut Vec<Sub>) {
    let timeout = if S::KIND == Kind::Polling && HAVE_CLOCK { 3 } else { 0 };
    let chans: Vec<u8> = ctx.pick(vec![5], vec![0, 5, 15], vec![0, 3, 5, 8, 12, 15]);
    let mut pool: Vec<(u8, Run<S>, Vec<Op>)> = Vec::new();
    for &ch in &chans {
        for (st, path) in pool_for::<S>(ctx, ch, timeout, ctx.pick(60, 400, 4000)) {
            pool.push((ch, st, path));
        }
        if S::KIND == Kind::Cc14 {
            // plus one state per MSB controller number (a transparent message must not depend on which one is stored)
            for (st, path) in pool_for_ext::<S>(ctx, ch, timeout, 400, true) {
                if path.len() == 1 {
                    pool.push((ch, st, path));
                }
            }
        }
    }
    // (state, message) product
    {
        let stride = ctx.pick(29usize, 1, 1);
        let msgs: Vec<Vec<(u8, u8, u8)>> = chans.iter().map(|c| transparent_messages::<S>(*c)).collect();
        let per = msgs[0].len() as u64;
        let proto = Sub::new(
            &format!("{}_state_x_transparent_message", S::NAME),
            &format!("{} scanner: {} reachable states (single-channel fixpoint over an abstract contributing alphabet on channels {:?}{}) x {} non-contributing messages each (all non-CC channel statuses x data {{0,1,64,127}}^2 and x every first data byte on 3 channels; all system statuses x every first data byte x {{0,1,64,127}}; every non-contributing controller x all 128 values on 3 channels)", S::NAME, pool.len(), chans, if S::KIND == Kind::Polling { ", with polls and time steps" } else { "" }, per),
            "non-trivial = state is not the initial one",
            stride == 1,
        );
        let n = pool.len() as u64 * per;
        let cnt = (n + stride as u64 - 1) / stride as u64;
        let init = Run::<S>::new(timeout);
        let mut sub = par_enum(ctx, &proto, cnt, |sub, j| {
            let i = (j * stride as u64).min(n - 1);
            let (ch, st, path) = &pool[(i / per) as usize];
            let ci = chans.iter().position(|c| c == ch).unwrap();
            let (s, d1, d2) = msgs[ci][(i % per) as usize];
            let carrier = (i % 4) as u8;
            sub.eval(
                i as u128,
                || json!({"kind": "transparent", "scanner": S::NAME, "timeout_ns": tjson(timeout), "state_ops": ops_json(path), "message": [s, d1, d2], "via": carrier}),
                || {
                    check_transparent(st, s, d1, d2, carrier)?;
                    Ok(!st.eq_state(&init))
                },
            );
        });
        sub.samples.push(json!({"kind": "transparent", "scanner": S::NAME, "timeout_ns": tjson(timeout), "state_ops": ops_json(&pool[pool.len() / 2].2), "message": [0x95, 64, 127], "via": 0}));
        sub.samples.push(json!({"kind": "transparent", "scanner": S::NAME, "timeout_ns": tjson(timeout), "state_ops": ops_json(&pool[pool.len() - 1].2), "message": [0xB0 | chans[0], 70, 5], "via": 1}));
        subs.push(sub);
    }
    // converse: every controller the predicate accepts matters to the scanner in some state
    {
        let mut sub = Sub::new(
            &format!("{}_contributing_controllers_matter", S::NAME),
            &format!("{} scanner: for every controller number its predicate accepts there is a reachable state and value for which the feed reports or changes the state", S::NAME),
            "every accepted controller number",
            true,
        );
        for cn in 0..128u8 {
            if !S::contributes(cn) {
                continue;
            }
            sub.eval(cn as u128, || json!({"kind": "converse", "scanner": S::NAME, "controller": cn}), || check_converse::<S>(ctx, cn));
        }
        sub.samples.push(json!({"kind": "converse", "scanner": S::NAME, "controller": 6}));
        subs.push(sub);
    }
    // metamorphic insertion
    {
        let cases = ctx.pick(1_500u64, 60_000, 300_000);
        let max_len = ctx.pick(32usize, 64, 300);
        let proto = Sub::new(
            &format!("{}_insertion", S::NAME),
            &format!("{} scanner: a random history and the same history with non-contributing messages inserted at random positions give the same outputs for the original calls and equal final states", S::NAME),
            "non-trivial = at least one insertion and at least one report; distinct by hash",
            false,
        );
        let sub = par_proptest(
            ctx,
            &proto,
            cases,
            || meta_strategy(S::KIND, max_len),
            |c: &MetaCase| {
                let t = timeout_for::<S>(c.timeout_idx);
                let ops = concretize(S::KIND, &c.hist, t);
                json!({"kind": "insertion", "scanner": S::NAME, "timeout_ns": tjson(t), "ops": ops_json(&ops), "inserts": c.inserts.iter().map(|i| json!([i.0, i.1, i.2, i.3, i.4])).collect::<Vec<_>>()})
            },
            |c: &MetaCase| {
                let t = timeout_for::<S>(c.timeout_idx);
                let ops = concretize(S::KIND, &c.hist, t);
                check_insertion::<S>(t, &ops, &c.inserts)
            },
        );
        subs.push(sub);
    }
}

fn insert_message<S: Sc>(i: &(u16, u8, u8, u8, u8)) -> Op {
    let ch = i.1 & 15;
    match i.2 % 4 {
        0 => {
            // non-contributing controller: map into the complement of the contributing set
            let mut cn = i.3 & 127;
            while S::contributes(cn) {
                cn = (cn + 1) & 127;
            }
            Op::Feed { carrier: i.2 >> 6, s: 0xB0 | ch, d1: cn, d2: i.4 & 127 }
        }
        1 => Op::Feed { carrier: i.2 >> 6, s: [0x80u8, 0x90, 0xA0, 0xC0, 0xD0, 0xE0][(i.3 % 6) as usize] | ch, d1: i.3 & 127, d2: i.4 & 127 },
        2 => Op::Feed { carrier: i.2 >> 6, s: 0xF0 | (i.3 & 15), d1: i.4 & 127, d2: i.3 & 127 },
        _ => Op::Feed { carrier: i.2 >> 6, s: 0x90 | ch, d1: i.3 & 127, d2: 0 },
    }
}

fn check_insertion<S: Sc>(timeout: u64, ops: &[Op], inserts: &[(u16, u8, u8, u8, u8)]) -> Result<ROutcome, Fail> {
    let mut a = Run::<S>::new(timeout);
    let mut b = Run::<S>::new(timeout);
    let mut reports = 0;
    let n = ops.len();
    // positions of insertions (before op index p; p == n means at the end)
    let mut at: Vec<Vec<Op>> = vec![Vec::new(); n + 1];
    for i in inserts {
        at[(i.0 as usize * (n + 1)) >> 16].push(insert_message::<S>(i));
    }
    for (k, op) in ops.iter().enumerate() {
        for ins in &at[k] {
            let o = b.step(ins);
            ensure!(o == [None, None], format!("{}/inserted_message_reports", S::NAME), "inserted {:?} before op #{} reported {:?}", ins, k, o);
        }
        let oa = a.step(op);
        let ob = b.step(op);
        ensure!(oa == ob, format!("{}/insertion_changes_output", S::NAME), "op #{} {:?}: {:?} without insertions, {:?} with", k, op, oa, ob);
        reports += oa.iter().flatten().count();
    }
    for ins in &at[n] {
        let o = b.step(ins);
        ensure!(o == [None, None], format!("{}/inserted_message_reports", S::NAME), "inserted {:?} at the end reported {:?}", ins, o);
    }
    ensure!(a.eq_state(&b), format!("{}/insertion_changes_final_state", S::NAME), "final states differ: {:?} vs {:?}", a.sc, b.sc);
    let nt = !inserts.is_empty() && reports > 0;
    Ok(ROutcome { nontrivial: nt, classes: if nt { vec!["insertions_and_reports"] } else { vec![] }, hash: hash64(&(timeout, ops, inserts)) })
}

pub fn run_c16(ctx: &Ctx) -> Report {
    let mut subs = Vec::new();
    {
        let mut sub = Sub::new("predicates", "ControllerNumber predicates for all 128 controller numbers; the 16 *_LSB constants against their MSB constants; the eight (N)RPN controller constants", "every controller number", true);
        for cn in 0..128u8 {
            sub.eval(cn as u128, || json!({"kind": "predicate", "controller": cn}), || check_predicates(cn));
        }
        sub.eval(0, || json!({"kind": "lsb_constants"}), check_lsb_constants);
        sub.add_samples(128, ctx.seed, |i| json!({"kind": "predicate", "controller": i}));
        subs.push(sub);
    }
    c16_for::<ControlChange14BitMessageScanner>(ctx, &mut subs);
    c16_for::<ParameterNumberMessageScanner>(ctx, &mut subs);
    // (state equality / Debug keys of the polling scanner are only meaningful with the mock clock)
    #[cfg(feature = "hm_std")]
    if HAVE_CLOCK {
        c16_for::<helgoboss_midi::PollingParameterNumberMessageScanner>(ctx, &mut subs);
    }
    Report {
        subs,
        rule: "literal sets for the predicates; every (reachable pool state x non-contributing message) pair must report nothing and leave the scanner == its copy; converse: every accepted controller matters in some state; metamorphic insertion of non-contributing messages into random histories".into(),
        assumptions: vec!["pool states come from single-channel fixpoints over an abstract contributing alphabet (values {0,127}); full-alphabet states are reached by the random insertion sub-check".into()],
    }
}

// ---------------------------------------------------------------------------------------------
// C17: reset, new/default, copies
// ---------------------------------------------------------------------------------------------

fn check_reset_copy<S: Sc>(timeout: u64, prefix: &[Op], suffix: &[Op]) -> Result<ROutcome, Fail> {
    let mut a = Run::<S>::new(timeout);
    for op in prefix {
        a.step(op);
    }
    let fresh_now = Run::<S> { sc: S::make(timeout), now: a.now };
    let differs = !a.eq_state(&fresh_now);
    // (0) every way of copying gives an equal scanner: Copy, Clone::clone, Clone::clone_from into a
    //     scanner that already has progress of its own
    {
        S::set_clock_(a.now);
        let by_clone = Run::<S> { sc: api(|| a.sc.clone()), now: a.now };
        ensure!(by_clone.eq_state(&a), format!("{}/clone_not_equal_to_original", S::NAME), "clone(): {:?}\noriginal: {:?}", by_clone.sc, a.sc);
        let mut target = Run::<S>::new(timeout);
        target.now = a.now;
        for op in suffix.iter().take(12) {
            target.step(op);
        }
        target.now = a.now;
        S::set_clock_(a.now);
        api(|| target.sc.clone_from(&a.sc));
        ensure!(target.eq_state(&a), format!("{}/clone_from_not_equal_to_original", S::NAME), "clone_from(): {:?}\noriginal: {:?}", target.sc, a.sc);
        // and they evolve like the original
        let (mut o, mut c1, mut c2) = (a, by_clone, target);
        for (k, op) in suffix.iter().enumerate() {
            let (r0, r1, r2) = (o.step(op), c1.step(op), c2.step(op));
            ensure!(r0 == r1, format!("{}/clone_evolves_differently", S::NAME), "suffix op #{} {:?}: original {:?}, clone() {:?}", k, op, r0, r1);
            ensure!(r0 == r2, format!("{}/clone_from_evolves_differently", S::NAME), "suffix op #{} {:?}: original {:?}, clone_from() {:?}", k, op, r0, r2);
        }
    }
    // (1) copy: evolves identically and independently
    let snapshot = a;
    let mut copy = a;
    let mut outs_copy = Vec::with_capacity(suffix.len());
    for op in suffix {
        outs_copy.push(copy.step(op));
    }
    ensure!(a.eq_state(&snapshot), format!("{}/feeding_a_copy_changes_the_original", S::NAME), "original changed from {:?} to {:?}", snapshot.sc, a.sc);
    let mut orig = a;
    for (k, op) in suffix.iter().enumerate() {
        let o = orig.step(op);
        ensure!(o == outs_copy[k], format!("{}/copy_evolves_differently", S::NAME), "suffix op #{} {:?}: original {:?}, copy {:?}", k, op, o, outs_copy[k]);
    }
    ensure!(orig.eq_state(&copy), format!("{}/copy_ends_in_different_state", S::NAME), "{:?} vs {:?}", orig.sc, copy.sc);
    // (2) reset == starting over
    let mut r = a;
    r.step(&Op::Reset);
    let mut fresh = fresh_now;
    ensure!(r.eq_state(&fresh), format!("{}/reset_not_equal_to_new", S::NAME), "after reset: {:?}\nnew: {:?}", r.sc, fresh.sc);
    for (k, op) in suffix.iter().enumerate() {
        let o1 = r.step(op);
        let o2 = fresh.step(op);
        ensure!(o1 == o2, format!("{}/reset_scanner_reports_differently", S::NAME), "suffix op #{} {:?}: reset scanner {:?}, new scanner {:?}", k, op, o1, o2);
    }
    ensure!(r.eq_state(&fresh), format!("{}/reset_scanner_ends_in_different_state", S::NAME), "{:?} vs {:?}", r.sc, fresh.sc);
    // non-trivial: state before the reset differs from new in >= 2 channels incl. channel 15
    let mut touched = 0u16;
    for op in prefix {
        match op {
            Op::Reset => touched = 0,
            Op::Feed { s, d1, .. } if s >> 4 == 0xB && S::contributes(*d1) => touched |= 1 << (s & 15),
            _ => {}
        }
    }
    let nt = differs && touched.count_ones() >= 2;
    let mut classes = vec![];
    if differs {
        classes.push("state_differs_from_new");
    }
    if touched & 0x8000 != 0 && differs {
        classes.push("channel_15_touched");
    }
    Ok(ROutcome { nontrivial: nt, classes, hash: hash64(&(timeout, prefix, suffix)) })
}

fn probes_for<S: Sc>(ch: u8) -> Vec<Op> {
    match S::KIND {
        Kind::Cc14 => vec![Op::cc(ch, 7, 1), Op::cc(ch, 39, 2), Op::cc(ch, 32, 0)],
        _ => vec![Op::cc(ch, 6, 1), Op::cc(ch, 38, 2), Op::cc(ch, 96, 3), Op::cc(ch, 99, 0), Op::cc(ch, 98, 0), Op::Poll(ch)],
    }
}

fn check_reset_pool<S: Sc>(t: u64, st: &Run<S>, probes: &[Op]) -> CheckResult {
    let fresh = Run::<S> { sc: S::make(t), now: st.now };
    let differs = !st.eq_state(&fresh);
    let mut r = *st;
    // reset once, and again and again (an "O(1) reset" by generation counter must not wrap around
    // into a state in which stale progress becomes valid again)
    for k in 1..=258u32 {
        r.step(&Op::Reset);
        if k <= 2 || k >= 255 {
            ensure!(r.eq_state(&fresh), format!("{}/reset_not_equal_to_new", S::NAME), "after {} reset(s): {:?}\nnew: {:?}", k, r.sc, fresh.sc);
            for p in probes.iter() {
                let (mut r2, mut f2) = (r, fresh);
                let (o1, o2) = (r2.step(p), f2.step(p));
                ensure!(o1 == o2 && r2.eq_state(&f2), format!("{}/reset_scanner_reports_differently", S::NAME), "after {} reset(s), {:?}: {:?} vs {:?}", k, p, o1, o2);
            }
        }
    }
    Ok(differs)
}

fn c17_for<S: Sc>(ctx: &Ctx, subs: &mut Vec<Sub>) {
    // new == default
    {
        let mut sub = Sub::new(&format!("{}_new_default", S::NAME), &format!("{} scanner: new() == default() (polling: default() == new(zero timeout), new(t) != semantics of other timeouts are kept by reset)", S::NAME), "constructors", true);
        for k in 0..2u128 {
            sub.eval(k, || json!({"kind": "new_default", "scanner": S::NAME}), || {
                let a = Run::<S> { sc: S::make(0), now: 0 };
                let d = Run::<S> { sc: S::make_default(), now: 0 };
                ensure!(a.eq_state(&d), format!("{}/new_not_equal_to_default", S::NAME), "{:?} vs {:?}", a.sc, d.sc);
                Ok(true)
            });
        }
        sub.samples.push(json!({"kind": "new_default", "scanner": S::NAME}));
        subs.push(sub);
    }
    // pool states: reset == new for every fixpoint state and every timeout
    {
        let timeouts: Vec<u64> = if S::KIND == Kind::Polling && HAVE_CLOCK { vec![0, 3] } else { vec![0] };
        let mut sub = Sub::new(
            &format!("{}_reset_pool_states", S::NAME),
            &format!("{} scanner: every state of the single-channel fixpoints (channels 0, 7, 15; timeouts {:?}) is reset and compared with a new scanner; then every abstract next input is fed to both", S::NAME, timeouts.iter().map(|t| tjson(*t)).collect::<Vec<_>>()),
            "non-trivial = state before the reset differs from new",
            true,
        );
        for &t in &timeouts {
            let bt = t;
            for ch in ctx.pick(vec![15u8], vec![0, 7, 15], vec![0, 7, 15]) {
                let pool = pool_for::<S>(ctx, ch, bt, ctx.pick(100, 2000, 20000));
                let probes: Vec<Op> = probes_for::<S>(ch);
                for (idx, (st, path)) in pool.iter().enumerate() {
                    let st = *st;
                    let probes = &probes;
                    sub.eval(idx as u128, || json!({"kind": "reset_pool", "scanner": S::NAME, "timeout_ns": tjson(t), "state_ops": ops_json(path), "channel": ch}), || check_reset_pool::<S>(t, &st, probes));
                }
            }
        }
        sub.samples.push(json!({"kind": "reset_pool", "scanner": S::NAME, "timeout_ns": 0, "state_ops": [{"feed": [0xB0, if S::KIND == Kind::Cc14 { 7 } else { 99 }, 1]}], "channel": 0}));
        subs.push(sub);
    }
    // R
    {
        let cases = ctx.pick(1_500u64, 80_000, 400_000);
        let max_len = ctx.pick(32usize, 64, 300);
        let proto = Sub::new(
            &format!("{}_reset_and_copy", S::NAME),
            &format!("{} scanner: random prefix history, then (a) a copy fed a random suffix reports like the original fed the same suffix and leaves the original untouched, (b) reset() makes the scanner == a new one (same timeout) and it reports like a new one on the suffix", S::NAME),
            "non-trivial = state before the reset differs from new and >= 2 channels were touched; distinct by hash",
            false,
        );
        let mut sub = par_proptest(
            ctx,
            &proto,
            cases,
            || meta_strategy(S::KIND, max_len),
            |c: &MetaCase| {
                let t = timeout_for::<S>(c.timeout_idx);
                json!({"kind": "reset_copy", "scanner": S::NAME, "timeout_ns": tjson(t), "prefix": ops_json(&strip_resets(&concretize(S::KIND, &c.hist, t))), "suffix": ops_json(&concretize(S::KIND, &c.suffix, t))})
            },
            |c: &MetaCase| {
                let t = timeout_for::<S>(c.timeout_idx);
                check_reset_copy::<S>(t, &strip_resets(&concretize(S::KIND, &c.hist, t)), &concretize(S::KIND, &c.suffix, t))
            },
        );
        sub.floor("state_differs_from_new", 500);
        sub.floor("channel_15_touched", 100);
        subs.push(sub);
    }
}

/// the prefix has its resets removed (so that most prefixes end in a non-trivial state; resets
/// inside histories are exercised by the suffix and by the other checks)
fn strip_resets(ops: &[Op]) -> Vec<Op> {
    ops.iter().filter(|o| !matches!(o, Op::Reset)).cloned().collect()
}

pub fn run_c17(ctx: &Ctx) -> Report {
    let mut subs = Vec::new();
    c17_for::<ControlChange14BitMessageScanner>(ctx, &mut subs);
    c17_for::<ParameterNumberMessageScanner>(ctx, &mut subs);
    // (state equality / Debug keys of the polling scanner are only meaningful with the mock clock)
    #[cfg(feature = "hm_std")]
    if HAVE_CLOCK {
        c17_for::<helgoboss_midi::PollingParameterNumberMessageScanner>(ctx, &mut subs);
    }
    Report {
        subs,
        rule: "differential: reset scanner vs new scanner (same timeout) compared with == and on random / abstract continuations; copy vs original on random suffixes; new() vs default()".into(),
        assumptions: vec!["scanner equality is the derived PartialEq (the mock Instant compares exactly)".into()],
    }
}

// ---------------------------------------------------------------------------------------------
// Replay
// ---------------------------------------------------------------------------------------------

fn replay_generic<S: Sc>(case: &Value) -> Option<CheckResult> {
    let kind = case["kind"].as_str()?;
    let t = case.get("timeout_ns").and_then(tfrom).unwrap_or(0);
    if S::KIND == Kind::Polling && !HAVE_CLOCK && t != 0 && t < u64::MAX - 2 {
        return None;
    }
    match kind {
        "projection" => Some(projection_outcome::<S>(t, &ops_from(&case["ops"])?).map(|o| o.nontrivial)),
        "insertion" => {
            let ins: Option<Vec<(u16, u8, u8, u8, u8)>> = case["inserts"].as_array()?.iter().map(|i| Some((json_u64(&i[0])? as u16, json_u8(&i[1])?, json_u8(&i[2])?, json_u8(&i[3])?, json_u8(&i[4])?))).collect();
            Some(check_insertion::<S>(t, &ops_from(&case["ops"])?, &ins?).map(|o| o.nontrivial))
        }
        "reset_copy" => Some(check_reset_copy::<S>(t, &ops_from(&case["prefix"])?, &ops_from(&case["suffix"])?).map(|o| o.nontrivial)),
        "transparent" => {
            let mut st = Run::<S>::new(t);
            for op in ops_from(&case["state_ops"])? {
                st.step(&op);
            }
            let m = case["message"].as_array()?;
            let (s, d1, d2) = (json_u8(m.get(0)?)?, json_u8(m.get(1)?)?, json_u8(m.get(2)?)?);
            if s < 0x80 || d1 > 127 || d2 > 127 || (s >> 4 == 0xB && S::contributes(d1)) {
                return None;
            }
            Some(check_transparent(&st, s, d1, d2, json_u8(&case["via"]).unwrap_or(0) & 3))
        }
        "reset_pool" => {
            let mut st = Run::<S>::new(t);
            for op in ops_from(&case["state_ops"])? {
                st.step(&op);
            }
            let ch = json_u8(&case["channel"]).filter(|c| *c < 16)?;
            Some(check_reset_pool::<S>(t, &st, &probes_for::<S>(ch)))
        }
        "converse" => {
            let ctx = Ctx { prop: "C16".into(), tier: Tier::Quick, seed: 0, threads: 1, config: "main".into(), reduced: false };
            Some(check_converse::<S>(&ctx, json_u8(&case["controller"]).filter(|c| *c < 128)?))
        }
        "new_default" => {
            let a = Run::<S> { sc: S::make(0), now: 0 };
            let d = Run::<S> { sc: S::make_default(), now: 0 };
            Some(if a.eq_state(&d) { Ok(true) } else { fail(format!("{}/new_not_equal_to_default", S::NAME), format!("{:?} vs {:?}", a.sc, d.sc)) })
        }
        _ => None,
    }
}

pub fn replay_meta(case: &Value) -> Option<CheckResult> {
    let kind = case["kind"].as_str()?;
    match kind {
        "predicate" => return json_u8(&case["controller"]).filter(|c| *c < 128).map(check_predicates),
        "lsb_constants" => return Some(check_lsb_constants()),
        _ => {}
    }
    match case["scanner"].as_str()? {
        "cc14" => replay_generic::<ControlChange14BitMessageScanner>(case),
        "nrpn" => replay_generic::<ParameterNumberMessageScanner>(case),
        #[cfg(feature = "hm_std")]
        "polling" => replay_generic::<helgoboss_midi::PollingParameterNumberMessageScanner>(case),
        _ => None,
    }
}

// --- entry points for the fuzz targets -----------------------------------------------------------

pub fn meta_timeout<S: Sc>(idx: u8) -> u64 {
    timeout_for::<S>(idx)
}
pub fn meta_tjson(t: u64) -> Value {
    tjson(t)
}
pub fn meta_projection<S: Sc>(t: u64, ops: &[Op]) -> Result<(), Fail> {
    check_projection::<S>(t, ops).map(|_| ())
}
pub fn meta_reset_copy<S: Sc>(t: u64, prefix: &[Op], suffix: &[Op]) -> Result<(), Fail> {
    check_reset_copy::<S>(t, prefix, suffix).map(|_| ())
}
pub fn meta_insertion<S: Sc>(t: u64, ops: &[Op], ins: &[(u16, u8, u8, u8, u8)]) -> Result<(), Fail> {
    check_insertion::<S>(t, ops, ins).map(|_| ())
}
