//! C07 (14-bit CC encoding is correct and the scanner inverts it) and
//! C08 (the 14-bit CC scanner reports exactly the justified messages).
use crate::bfs::*;
use crate::engine::*;
use crate::impls::*;
use crate::ops::*;
use crate::p_short::Impl;
use crate::refmodel::*;
use crate::{ensure, ensure_eq, for_impl};
use helgoboss_midi::{
    ControlChange14BitMessage, ControlChange14BitMessageScanner, RawShortMessage, ShortMessage,
    StructuredShortMessage,
};
use proptest::prelude::*;
use serde_json::{json, Value};

// ---------------------------------------------------------------------------------------------
// C07
// ---------------------------------------------------------------------------------------------

fn check_ctor(ch: u8, cn: u8, v: u16) -> CheckResult {
    let r = expect_panic(|| ControlChange14BitMessage::new(h_ch(ch), h_cn(cn), h_u14(v)));
    match r {
        Ok(_) => {
            ensure!(cn > 31, "ctor_panics_for_valid_msb", "new(ch {}, cn {}, {}) panicked", ch, cn, v);
        }
        Err(m) => {
            ensure!(cn <= 31, "ctor_accepts_invalid_msb", "new(ch {}, cn {}, {}) returned {:?}", ch, cn, v, m);
        }
    }
    Ok(true)
}

fn bytes_of<M: ShortMessage>(m: &M) -> (u8, u8, u8) {
    let b = api(|| m.to_bytes());
    (b.0, b.1.get(), b.2.get())
}

fn check_encode_impl<M: Impl>(msg: &ControlChange14BitMessage, ch: u8, n: u8, v: u16) -> CheckResult {
    let name = IMPL_NAMES[M::IDX as usize];
    let want = [(0xB0 | ch, n, (v >> 7) as u8), (0xB0 | ch, n + 32, (v & 127) as u8)];
    let a: [M; 2] = api(|| msg.to_short_messages());
    let got = [bytes_of(&a[0]), bytes_of(&a[1])];
    ensure!(got == want, format!("encode/{}", name), "to_short_messages of (ch {}, cn {}, value {}) = {:?}, expected {:?}", ch, n, v, got, want);
    let b: [M; 2] = api(|| (*msg).into());
    let got2 = [bytes_of(&b[0]), bytes_of(&b[1])];
    ensure!(got2 == want, format!("encode_into_array/{}", name), "Into<[T;2]> = {:?}, expected {:?}", got2, want);
    ensure!(api(|| a[0].controller_number()).map(|c| c.get()) == Some(n) && api(|| a[1].control_value()).map(|c| c.get()) == Some((v & 127) as u8), format!("encode_accessors/{}", name), "{:?}", a);
    Ok(true)
}

fn check_message(ch: u8, n: u8, v: u16) -> CheckResult {
    let msg = api(|| ControlChange14BitMessage::new(h_ch(ch), h_cn(n), h_u14(v)));
    ensure_eq!(api(|| msg.channel()).get(), ch, "accessor/channel");
    ensure_eq!(api(|| msg.msb_controller_number()).get(), n, "accessor/msb_controller_number");
    ensure_eq!(api(|| msg.lsb_controller_number()).get(), n + 32, "accessor/lsb_controller_number");
    ensure_eq!(api(|| msg.value()).get(), v, "accessor/value");
    for k in 0..4u8 {
        for_impl!(k, check_encode_impl(&msg, ch, n, v))?;
    }
    // decode from a fresh scanner
    let mut sc = api(ControlChange14BitMessageScanner::new);
    decode_expect(&mut sc, &msg, 0, "decode_fresh")?;
    Ok(v >= 128)
}

fn decode_expect(sc: &mut ControlChange14BitMessageScanner, msg: &ControlChange14BitMessage, carrier: u8, sig: &str) -> Result<(), Fail> {
    let (c, n, v) = observe_cc14(msg);
    let r1 = feed_cc14(sc, carrier, 0xB0 | c, n, (v >> 7) as u8);
    ensure!(r1.is_none(), format!("{}/first_message_reports", sig), "feeding the MSB of {:?} reported {:?}", msg, r1);
    let r2 = feed_cc14(sc, carrier, 0xB0 | c, n + 32, (v & 127) as u8);
    ensure!(r2 == Some(*msg), format!("{}/second_message", sig), "feeding the LSB of {:?} reported {:?}", msg, r2);
    if let Some(m) = r2 {
        ensure!(observe_cc14(&m) == (c, n, v), format!("{}/accessors", sig), "{:?}", m);
    }
    Ok(())
}

/// per-channel state index: 0 = untouched, 1 + n0*128 + v0 = most recent MSB (n0, v0)
const N_CH_STATES: u64 = 1 + 32 * 128;

fn put_state(sc: &mut ControlChange14BitMessageScanner, ch: u8, st: u64) {
    if st > 0 {
        let (n0, v0) = (((st - 1) / 128) as u8, ((st - 1) % 128) as u8);
        let _ = feed_cc14(sc, 0, 0xB0 | ch, n0, v0);
    }
}

/// `variant` (derived from `others`): how the prior state is followed up before the encoding is fed:
/// 0 nothing, 1 a reset and the same state again, 2 a reset only (the scanner must be like new),
/// 3 a lone LSB of the message's own controller, 4 a lone LSB of another controller,
/// 5 a Control Change outside 0-63, 6 reset + lone LSB, 7 / 8 a complete NRPN / RPN number selection
fn check_decode_after(st: u64, others: u64, ch: u8, n: u8, v: u16, carrier: u8) -> CheckResult {
    let mut sc = api(ControlChange14BitMessageScanner::new);
    // other channels in seed-chosen states
    let mut m = Mix(others);
    if others != 0 {
        for c in 0..16u8 {
            if c != ch {
                put_state(&mut sc, c, m.below(N_CH_STATES));
            }
        }
    }
    put_state(&mut sc, ch, st);
    let variant = if others == 0 { 0 } else { (others >> 8) % 9 };
    let x = (others >> 16) as u8 & 127;
    match variant {
        1 => {
            api(|| sc.reset());
            put_state(&mut sc, ch, st);
        }
        2 => api(|| sc.reset()),
        3 => {
            let _ = feed_cc14(&mut sc, 0, 0xB0 | ch, n + 32, x);
        }
        4 => {
            let _ = feed_cc14(&mut sc, 0, 0xB0 | ch, 32 + ((n + 1 + (x & 15)) & 31), x);
        }
        5 => {
            let _ = feed_cc14(&mut sc, 0, 0xB0 | ch, 64 + (x & 63), x);
        }
        6 => {
            api(|| sc.reset());
            let _ = feed_cc14(&mut sc, 0, 0xB0 | ch, n + 32, x);
        }
        7 | 8 => {
            // a complete (N)RPN number selection on the channel (it means nothing to this scanner)
            let (cm, cl) = if variant == 7 { (99, 98) } else { (101, 100) };
            let _ = feed_cc14(&mut sc, 0, 0xB0 | ch, cm, x);
            let _ = feed_cc14(&mut sc, 0, 0xB0 | ch, cl, x ^ 1);
        }
        _ => {}
    }
    let msg = ControlChange14BitMessage::new(h_ch(ch), h_cn(n), h_u14(v));
    decode_expect(&mut sc, &msg, carrier, "decode_after_state")?;
    // non-trivial: stale data that must be overwritten
    Ok(st > 0 && (((st - 1) / 128) as u8 != n || ((st - 1) % 128) as u16 != v >> 7))
}

#[derive(Clone, Debug)]
pub struct HistThenMsg {
    pub hist: RawHistory,
    pub ch: u8,
    pub n: u8,
    pub v: u16,
    pub carrier: u8,
}

fn check_decode_after_history(ops: &[Op], ch: u8, n: u8, v: u16, carrier: u8) -> Result<ROutcome, Fail> {
    let mut sc = api(ControlChange14BitMessageScanner::new);
    let mut touched = false;
    for op in ops {
        match *op {
            Op::Feed { carrier, s, d1, d2 } => {
                let _ = feed_cc14(&mut sc, carrier, s, d1, d2);
                if s == 0xB0 | ch && d1 < 64 {
                    touched = true;
                }
            }
            Op::Reset => {
                api(|| sc.reset());
                touched = false;
            }
            _ => {}
        }
    }
    let msg = ControlChange14BitMessage::new(h_ch(ch), h_cn(n), h_u14(v));
    decode_expect(&mut sc, &msg, carrier, "decode_after_history")?;
    Ok(ROutcome { nontrivial: touched, classes: if touched { vec!["channel_had_prior_cc14_traffic"] } else { vec![] }, hash: hash64(&(ops, ch, n, v)) })
}

pub fn run_c07(ctx: &Ctx) -> Report {
    let mut subs = Vec::new();
    {
        let mut sub = Sub::new("ctor_panic", "ControlChange14BitMessage::new for all 128 controller numbers x channel {0,15} x value {0,16383}", "every case (panic boundary at 31/32)", true);
        for cn in 0..128u8 {
            for ch in [0u8, 15] {
                for v in [0u16, 16383] {
                    sub.eval(cn as u128, || json!({"kind": "ctor", "channel": ch, "controller": cn, "value": v}), || check_ctor(ch, cn, v));
                }
            }
        }
        sub.add_samples(128, ctx.seed, |i| json!({"kind": "ctor", "channel": 0, "controller": i, "value": 0}));
        subs.push(sub);
    }
    let stride = ctx.pick(97u64, 1, 1);
    let n_msgs = 16u64 * 32 * 16384;
    let dec = |i: u64| ((i / (32 * 16384)) as u8, ((i / 16384) % 32) as u8, (i % 16384) as u16);
    {
        let proto = Sub::new(
            "messages",
            "all 16 x 32 x 16384 messages: accessors, encoding into 4 implementations (to_short_messages and Into<[T;2]>), decoding by a fresh scanner",
            "non-trivial = value >= 128 (both halves of the split carry information)",
            stride == 1,
        );
        let cnt = n_msgs / stride;
        let mut sub = par_enum(ctx, &proto, cnt, |sub, j| {
            let (ch, n, v) = dec(j * stride);
            sub.eval(((v as u128) << 16) | (n as u128) << 8 | ch as u128, || json!({"kind": "message", "channel": ch, "controller": n, "value": v}), || check_message(ch, n, v));
        });
        sub.add_samples(cnt, ctx.seed, |j| {
            let (ch, n, v) = dec(j * stride);
            json!({"kind": "message", "channel": ch, "controller": n, "value": v})
        });
        subs.push(sub);
    }
    {
        // decoding after a prior state
        let thorough = ctx.thorough();
        let proto = Sub::new(
            "decode_after_state",
            if thorough {
                "every one of the 4097 reachable states of the message's channel x all 32 x 16384 messages (channel = state index mod 16), other channels in seed-chosen states"
            } else {
                "every message x 4 seed-chosen states of the message's channel (out of 4097), other channels in seed-chosen states; the state is followed by one of 9 seed-chosen follow-ups (nothing, reset + same state, reset only, lone LSB of the same / another controller, a controller outside 0-63, reset + lone LSB, a complete NRPN / RPN number selection)"
            },
            "non-trivial = prior state holds a different MSB controller or the same controller with a different value",
            thorough,
        );
        let seed = ctx.sub_seed("decode_after_state");
        let mut sub = if thorough {
            let per_state = 32u64 * 16384;
            par_enum(ctx, &proto, N_CH_STATES * per_state, |sub, i| {
                let st = i / per_state;
                let r = i % per_state;
                let (ch, n, v) = ((st % 16) as u8, (r / 16384) as u8, (r % 16384) as u16);
                let others = splitmix(seed ^ st) | 1;
                sub.eval(
                    (st as u128) << 32 | (v as u128) << 8 | n as u128,
                    || json!({"kind": "after_state", "state": st, "others_seed": others, "channel": ch, "controller": n, "value": v, "via": 0}),
                    || check_decode_after(st, others, ch, n, v, 0),
                );
            })
        } else {
            let st2 = ctx.pick(977u64, 1, 1);
            let cnt = n_msgs * 4 / st2;
            par_enum(ctx, &proto, cnt, |sub, j| {
                let i = j * st2;
                let (ch, n, v) = dec(i / 4);
                let h = splitmix(seed ^ i);
                // bias: half of the states hold the same controller (different value), half anything
                let st = if i % 4 < 2 { 1 + n as u64 * 128 + (h % 128) } else { h % N_CH_STATES };
                let others = if i % 4 == 0 { 0 } else { splitmix(h) | 1 };
                let carrier = (h >> 40) as u8 & 3;
                sub.eval(
                    (st as u128) << 32 | (v as u128) << 8 | n as u128,
                    || json!({"kind": "after_state", "state": st, "others_seed": others, "channel": ch, "controller": n, "value": v, "via": carrier}),
                    || check_decode_after(st, others, ch, n, v, carrier),
                );
            })
        };
        sub.samples.push(json!({"kind": "after_state", "state": 1 + 7 * 128 + 3, "channel": 0, "controller": 7, "value": 1057}));
        sub.samples.push(json!({"kind": "after_state", "state": 1 + 31 * 128 + 127, "channel": 15, "controller": 0, "value": 16383}));
        subs.push(sub);
    }
    {
        let cases = ctx.pick(2_000u64, 100_000, 600_000);
        let max_len = ctx.pick(24usize, 48, 200);
        let proto = Sub::new(
            "decode_after_history",
            "random 16-channel histories over the full alphabet (all carriers, resets) followed by the encoding of a random message",
            "non-trivial = the message's channel had 14-bit CC traffic since the last reset; distinct by hash",
            false,
        );
        let mut sub = par_proptest(
            ctx,
            &proto,
            cases,
            || {
                (history_strategy(Kind::Cc14, max_len), 0u8..16, 0u8..32, prop_oneof![0u16..16384, Just(0u16), Just(16383u16), Just(128u16)], 0u8..4)
                    .prop_map(|(hist, ch, n, v, carrier)| HistThenMsg { hist, ch, n, v, carrier })
            },
            |c: &HistThenMsg| json!({"kind": "after_history", "ops": ops_json(&concretize(Kind::Cc14, &c.hist, 0)), "channel": c.ch, "controller": c.n, "value": c.v, "via": c.carrier}),
            |c: &HistThenMsg| {
                // make the message's channel likely to be one of the history's channels
                let subset = subset_of(c.hist.mask);
                let ch = if c.n % 4 != 0 { subset[c.ch as usize % subset.len()] } else { c.ch };
                check_decode_after_history(&concretize(Kind::Cc14, &c.hist, 0), ch, c.n, c.v, c.carrier)
            },
        );
        sub.floor("channel_had_prior_cc14_traffic", 200);
        subs.push(sub);
    }
    Report {
        subs,
        rule: "exhaustive over all 8388608 messages (encode into 4 implementations, decode from a fresh scanner); decode after prior state: quick = 4 seed-chosen states per message, thorough = all 4097 states of the channel x all messages of one channel; plus seeded random multi-channel histories as prefix".into(),
        assumptions: vec![
            "reachable per-channel scanner states are {untouched} + {(n0, v0)} = 4097 (confirmed by the fixpoint of C08); a state is installed by feeding the Control Change that produces it".into(),
        ],
    }
}

pub fn replay_c07(_sub: &str, case: &Value) -> Option<CheckResult> {
    let kind = case["kind"].as_str()?;
    let ch = json_u8(&case["channel"]).filter(|c| *c < 16)?;
    let cn = json_u8(&case["controller"]).filter(|c| *c < 128)?;
    let v = json_u64(&case["value"]).filter(|v| *v < 16384)? as u16;
    match kind {
        "ctor" => Some(check_ctor(ch, cn, v)),
        "message" if cn < 32 => Some(check_message(ch, cn, v)),
        "after_state" if cn < 32 => {
            let st = json_u64(&case["state"]).filter(|s| *s < N_CH_STATES)?;
            let others = json_u64(&case["others_seed"]).unwrap_or(0);
            let carrier = json_u8(&case["via"]).unwrap_or(0) & 3;
            Some(check_decode_after(st, others, ch, cn, v, carrier))
        }
        "after_history" if cn < 32 => {
            let ops = ops_from(&case["ops"])?;
            let carrier = json_u8(&case["via"]).unwrap_or(0) & 3;
            Some(check_decode_after_history(&ops, ch, cn, v, carrier).map(|o| o.nontrivial))
        }
        _ => None,
    }
}

// ---------------------------------------------------------------------------------------------
// C08
// ---------------------------------------------------------------------------------------------

#[derive(Default)]
pub struct Cc14Stats {
    pub reports: u32,
    pub relsb: bool,
    pub mismatch: bool,
    pub lsb_before_msb: bool,
    pub report_after_reset: bool,
    pub resets: u32,
}

/// Call-by-call comparison of the real scanner with RefCc14 on a history.
pub fn check_cc14_history(ops: &[Op], stats: &mut Cc14Stats) -> Result<(), Fail> {
    // "since creation": created through new() or through Default (chosen by the history itself)
    let mut sc = if hash64(&ops) & 1 == 0 { api(ControlChange14BitMessageScanner::new) } else { api(ControlChange14BitMessageScanner::default) };
    let mut rf = RefCc14::default();
    let mut last_was_report_on: [bool; 16] = [false; 16];
    for (i, op) in ops.iter().enumerate() {
        match *op {
            Op::Feed { carrier, s, d1, d2 } => {
                let got = feed_cc14(&mut sc, carrier, s, d1, d2);
                let pre = rf;
                let want = rf.feed(s, d1, d2);
                let gobs = got.as_ref().map(observe_cc14);
                if gobs != want {
                    let kind = match (gobs.is_some(), want.is_some()) {
                        (true, false) => "unjustified_report",
                        (false, true) => "missing_report",
                        _ => "wrong_report",
                    };
                    return fail(format!("history/{}", kind), format!("op #{} {:?}: scanner reported {:?}, reference {:?}", i, op, got, want));
                }
                if let (Some(g), Some(w)) = (got, want) {
                    let built = ControlChange14BitMessage::new(h_ch(w.0), h_cn(w.1), h_u14(w.2));
                    ensure!(g == built, "history/report_not_equal_to_constructed", "op #{}: {:?} != {:?}", i, g, built);
                    reencode_cc14(&g)?;
                    stats.reports += 1;
                    if last_was_report_on[w.0 as usize] {
                        stats.relsb = true;
                    }
                    if stats.resets > 0 {
                        stats.report_after_reset = true;
                    }
                }
                if s >> 4 == 0xB && (32..64).contains(&d1) {
                    let c = (s & 15) as usize;
                    match pre.last_msb[c] {
                        None => stats.lsb_before_msb = true,
                        Some((n0, _)) if n0 != d1 - 32 => stats.mismatch = true,
                        _ => {}
                    }
                    last_was_report_on[c] = want.is_some();
                } else if s >> 4 == 0xB && d1 < 32 {
                    last_was_report_on[(s & 15) as usize] = false;
                }
            }
            Op::Reset => {
                api(|| sc.reset());
                rf.reset();
                stats.resets += 1;
                last_was_report_on = [false; 16];
            }
            _ => {}
        }
    }
    Ok(())
}

pub fn cc14_history_outcome(ops: &[Op]) -> Result<ROutcome, Fail> {
    let mut st = Cc14Stats::default();
    check_cc14_history(ops, &mut st)?;
    let mut classes = Vec::new();
    if st.reports > 0 {
        classes.push("has_report");
    }
    if st.relsb {
        classes.push("repeated_lsb_re_report");
    }
    if st.mismatch {
        classes.push("lsb_with_non_matching_msb");
    }
    if st.lsb_before_msb {
        classes.push("lsb_before_any_msb");
    }
    if st.report_after_reset {
        classes.push("report_after_reset");
    }
    let nontrivial = st.reports > 0 && (st.relsb || st.mismatch || st.lsb_before_msb || st.report_after_reset);
    Ok(ROutcome { nontrivial, classes, hash: hash64(&ops) })
}

#[derive(Clone)]
struct BState {
    sc: ControlChange14BitMessageScanner,
    rf: RefCc14,
}

fn bfs_alphabet(full: bool, ch: u8) -> Vec<Op> {
    let mut ops = Vec::new();
    if full {
        for cn in 0..64u8 {
            for v in 0..128u8 {
                ops.push(Op::cc(ch, cn, v));
            }
        }
    } else {
        for cn in 0..64u8 {
            for v in [0u8, 1, 64, 127] {
                ops.push(Op::cc(ch, cn, v));
            }
        }
    }
    ops.push(Op::Reset);
    ops.push(Op::Feed { carrier: 0, s: 0x90 | ch, d1: 60, d2: 100 }); // a non-CC on the channel
    // every Control Change outside 0-63 (one value each): none may disturb the pending MSB
    for cn in 64..128u8 {
        ops.push(Op::cc(ch, cn, 5));
    }
    ops.push(Op::Feed { carrier: 1, s: 0xF8, d1: 0, d2: 0 }); // system message
    ops
}

fn bfs_step(st: &BState, op: &Op) -> Result<Option<BState>, Fail> {
    let mut n = st.clone();
    match *op {
        Op::Feed { carrier, s, d1, d2 } => {
            let got = feed_cc14(&mut n.sc, carrier, s, d1, d2);
            let want = n.rf.feed(s, d1, d2);
            let gobs = got.as_ref().map(observe_cc14);
            if gobs != want {
                let kind = match (gobs.is_some(), want.is_some()) {
                    (true, false) => "unjustified_report",
                    (false, true) => "missing_report",
                    _ => "wrong_report",
                };
                return fail(format!("bfs/{}", kind), format!("{:?}: scanner reported {:?}, reference {:?}", op, got, want));
            }
        }
        Op::Reset => {
            api(|| n.sc.reset());
            n.rf.reset();
        }
        _ => return Ok(None),
    }
    Ok(Some(n))
}

pub fn run_c08(ctx: &Ctx) -> Report {
    let mut subs = Vec::new();
    // style B
    let full = ctx.thorough();
    let channels: Vec<u8> = if ctx.reduced { vec![5] } else if full { vec![0, 9, 15] } else { vec![0, 5, 15] };
    for ch in channels {
        let alphabet = bfs_alphabet(full, ch);
        let t0 = std::time::Instant::now();
        let out = bfs(
            ctx,
            // channel 15's exploration starts from a Default-constructed scanner
            BState { sc: if ch == 15 { ControlChange14BitMessageScanner::default() } else { ControlChange14BitMessageScanner::new() }, rf: RefCc14::default() },
            alphabet.len(),
            |s, i| bfs_step(s, &alphabet[i]),
            |s| key_of(&s.sc, &[hash64(&s.rf)]),
            // (the real scanner has 129 resp. 4097 states here; a change that multiplies the state
            // space, e.g. a counter, must not turn the check into an hours-long run: the cap ends the
            // search - without a verdict from this sub-check - and the repetition probes take over)
            if full { 300_000 } else { 30_000 },
        );
        let mut sub = Sub::new(
            &format!("bfs_channel_{}", ch),
            &format!(
                "all histories of every length on channel {} over {} (fixpoint of scanner state x reference state)",
                ch,
                if full { "the complete contributing alphabet: 64 controllers x 128 values + reset + non-CC + CC 64..127 + system message" } else { "all 64 controllers x values {0,1,64,127} + reset + non-CC + CC 64..127 + system message" }
            ),
            "non-trivial = transition taken from a non-initial state",
            out.complete && out.failure.is_none(),
        );
        sub.evals = out.transitions;
        sub.states = out.states.len() as u64;
        sub.transitions = out.transitions;
        sub.nontrivial = out.transitions.saturating_sub(alphabet.len() as u64);
        sub.wall_ms = t0.elapsed().as_millis() as u64;
        sub.class_n("bfs_depth", out.max_depth as u64);
        if !out.complete && out.failure.is_none() {
            sub.notes.push("state cap reached before the fixpoint".into());
        }
        let last = out.states.len() - 1;
        let path: Vec<Op> = out.path_to(last).iter().map(|i| alphabet[*i]).collect();
        sub.samples.push(json!({"kind": "history", "ops": ops_json(&path), "note": "shortest history reaching the last discovered state"}));
        if let Some((path, f)) = out.failure {
            let ops: Vec<Op> = path.iter().map(|i| alphabet[*i]).collect();
            sub.record(f, || json!({"kind": "history", "ops": ops_json(&ops)}), ops.len() as u128);
        }
        subs.push(sub);
    }
    // repetition probes (wrapping counters): from every state of the abstract fixpoint every
    // operation is repeated k times, then every operation is tried once
    {
        let ch = 11u8;
        let alphabet = bfs_alphabet(false, ch);
        let t0 = std::time::Instant::now();
        let out = bfs(
            ctx,
            BState { sc: ControlChange14BitMessageScanner::new(), rf: RefCc14::default() },
            alphabet.len(),
            |s, i| bfs_step(s, &alphabet[i]),
            |s| key_of(&s.sc, &[hash64(&s.rf)]),
            30_000,
        );
        let mut sub = Sub::new(
            "repetition_probes",
            &format!("from every state of the abstract fixpoint on channel {} (64 controllers x values {{0,1,64,127}}), every operation (incl. reset) repeated k times, k in {{255,256,257}} (thorough: also 65535-65537 from 8 states), followed by every operation once; oracle as in the BFS", ch),
            "non-trivial = every probe",
            false,
        );
        let mut failure = out.failure.as_ref().map(|(p, f)| (p.clone(), f.clone()));
        if failure.is_none() {
            let (tr, f) = repetition_probes(ctx, &out, alphabet.len(), |s, i| bfs_step(s, &alphabet[i]), &[255, 256, 257], if ctx.reduced { 8 } else { usize::MAX });
            sub.evals += tr;
            failure = f;
            if failure.is_none() && ctx.thorough() {
                let (tr, f) = repetition_probes(ctx, &out, alphabet.len(), |s, i| bfs_step(s, &alphabet[i]), &[65535, 65536, 65537], 8);
                sub.evals += tr;
                failure = f;
            }
        }
        sub.nontrivial = sub.evals;
        sub.states = out.states.len() as u64;
        sub.wall_ms = t0.elapsed().as_millis() as u64;
        sub.samples.push(json!({"kind": "history", "ops": ops_json(&[Op::cc(ch, 7, 1), Op::Reset, Op::Reset, Op::cc(ch, 39, 2)]), "note": "shape of a probe: state, operation repeated k times, one more operation"}));
        if let Some((path, f)) = failure {
            let ops: Vec<Op> = path.iter().map(|i| alphabet[*i]).collect();
            sub.record(f, || json!({"kind": "history", "ops": ops_json(&ops)}), ops.len() as u128);
        }
        subs.push(sub);
    }
    // style R
    {
        let cases = ctx.pick(3_000u64, 150_000, 1_000_000);
        let max_len = ctx.pick(32usize, 64, 400);
        let proto = Sub::new(
            "random_histories",
            "seeded random histories over the full 16-channel alphabet (all message types, four implementations as carriers, resets), compared call by call with the reference scanner",
            "non-trivial = history with a report and one of: repeated-LSB re-report, LSB with non-matching MSB, LSB before any MSB, report after a reset; distinct by hash",
            false,
        );
        let mut sub = par_proptest(
            ctx,
            &proto,
            cases,
            || history_strategy(Kind::Cc14, max_len),
            |h: &RawHistory| json!({"kind": "history", "ops": ops_json(&concretize(Kind::Cc14, h, 0))}),
            |h: &RawHistory| cc14_history_outcome(&concretize(Kind::Cc14, h, 0)),
        );
        sub.floor("has_report", 50);
        subs.push(sub);
    }
    Report {
        subs,
        rule: "style B: BFS over operation sequences on one channel with (Debug of scanner, reference state) pruning to a fixpoint - covers histories of every length over that alphabet; style R: proptest histories over the full alphabet; oracle: reference scanner keeping 'most recent CC < 32 on the channel since creation/reset'".into(),
        assumptions: vec![
            "pruning assumes the scanner's derived Debug prints its whole state (no hidden statics)".into(),
            "quick BFS abstracts control values to {0,1,64,127}; the complete contributing alphabet (all 128 values) is used in the thorough tier".into(),
        ],
    }
}

pub fn replay_c08(_sub: &str, case: &Value) -> Option<CheckResult> {
    let ops = ops_from(&case["ops"])?;
    Some(cc14_history_outcome(&ops).map(|o| o.nontrivial))
}

#[allow(dead_code)]
fn _unused(_: RawShortMessage, _: StructuredShortMessage, _: Foreign, _: ForeignTuple) {}
