//! Shared engine: case evaluation under a panic / allocation monitor, failure collection with
//! signatures, sharded enumeration, proptest runners, evidence and replay files.
use proptest::strategy::{Strategy, ValueTree};
use proptest::test_runner::{Config, RngAlgorithm, TestCaseError, TestError, TestRng, TestRunner};
use serde_json::{json, Map, Value};
use std::alloc::{GlobalAlloc, Layout, System};
use std::cell::{Cell, RefCell};
use std::collections::{BTreeMap, HashSet};
use std::panic::{catch_unwind, AssertUnwindSafe};
use std::sync::Once;
use std::time::Instant;

// ---------------------------------------------------------------------------------------------
// Allocation monitor
// ---------------------------------------------------------------------------------------------

thread_local! {
    static ARMED: Cell<bool> = const { Cell::new(false) };
    static ALLOCS: Cell<u64> = const { Cell::new(0) };
    static LAST_PANIC: RefCell<Option<String>> = const { RefCell::new(None) };
}

pub struct CountingAlloc;

unsafe impl GlobalAlloc for CountingAlloc {
    unsafe fn alloc(&self, layout: Layout) -> *mut u8 {
        let _ = ARMED.try_with(|a| {
            if a.get() {
                let _ = ALLOCS.try_with(|c| c.set(c.get() + 1));
            }
        });
        System.alloc(layout)
    }
    unsafe fn dealloc(&self, ptr: *mut u8, layout: Layout) {
        System.dealloc(ptr, layout)
    }
    unsafe fn alloc_zeroed(&self, layout: Layout) -> *mut u8 {
        let _ = ARMED.try_with(|a| {
            if a.get() {
                let _ = ALLOCS.try_with(|c| c.set(c.get() + 1));
            }
        });
        System.alloc_zeroed(layout)
    }
    unsafe fn realloc(&self, ptr: *mut u8, layout: Layout, new_size: usize) -> *mut u8 {
        let _ = ARMED.try_with(|a| {
            if a.get() {
                let _ = ALLOCS.try_with(|c| c.set(c.get() + 1));
            }
        });
        System.realloc(ptr, layout, new_size)
    }
}

/// Allocations inside crate calls are always counted (and reported in the evidence) but they are a
/// *violation* only for C18, which sets this flag.
pub static JUDGE_ALLOCS: std::sync::atomic::AtomicBool = std::sync::atomic::AtomicBool::new(false);

pub fn judge_allocs() -> bool {
    JUDGE_ALLOCS.load(std::sync::atomic::Ordering::Relaxed)
}

/// Runs a call into the crate under test with the allocation counter armed.
#[inline(always)]
pub fn api<T>(f: impl FnOnce() -> T) -> T {
    ARMED.with(|a| a.set(true));
    let r = f();
    ARMED.with(|a| a.set(false));
    r
}

#[inline(always)]
pub fn allocs() -> u64 {
    ALLOCS.with(|c| c.get())
}

fn disarm() {
    ARMED.with(|a| a.set(false));
}

pub fn install_panic_hook() {
    static ONCE: Once = Once::new();
    ONCE.call_once(|| {
        std::panic::set_hook(Box::new(|info| {
            disarm();
            let msg = if let Some(s) = info.payload().downcast_ref::<&str>() {
                s.to_string()
            } else if let Some(s) = info.payload().downcast_ref::<String>() {
                s.clone()
            } else {
                "<non-string panic payload>".to_string()
            };
            let loc = info
                .location()
                .map(|l| format!("{}:{}", l.file(), l.line()))
                .unwrap_or_default();
            LAST_PANIC.with(|p| *p.borrow_mut() = Some(format!("{} @ {}", msg, loc)));
        }));
    });
}

/// Runs `f`, converting a panic into `Err(message)`.
pub fn guarded<T>(f: impl FnOnce() -> T) -> Result<T, String> {
    match catch_unwind(AssertUnwindSafe(f)) {
        Ok(v) => Ok(v),
        Err(_) => {
            disarm();
            let m = LAST_PANIC
                .with(|p| p.borrow_mut().take())
                .unwrap_or_else(|| "<panic>".to_string());
            Err(m)
        }
    }
}

/// Runs a crate call that is *expected* to panic (documented panic). Returns Ok(panic message) if
/// it did panic and Err(value) otherwise. Exempt from allocation counting (the unwinder allocates).
pub fn expect_panic<T>(f: impl FnOnce() -> T) -> Result<String, T> {
    let a0 = allocs();
    let r = match catch_unwind(AssertUnwindSafe(f)) {
        Ok(v) => Err(v),
        Err(_) => {
            disarm();
            Ok(LAST_PANIC
                .with(|p| p.borrow_mut().take())
                .unwrap_or_else(|| "<panic>".to_string()))
        }
    };
    ALLOCS.with(|c| c.set(a0));
    r
}

// ---------------------------------------------------------------------------------------------
// Failures
// ---------------------------------------------------------------------------------------------

#[derive(Clone, Debug)]
pub struct Fail {
    /// coarse class of the failure (part of the signature)
    pub sig: String,
    pub detail: String,
}

pub type CheckResult = Result<bool, Fail>;

#[macro_export]
macro_rules! ensure {
    ($cond:expr, $sig:expr, $($arg:tt)*) => {
        if !($cond) {
            return Err($crate::engine::Fail { sig: ($sig).to_string(), detail: format!($($arg)*) });
        }
    };
}

#[macro_export]
macro_rules! ensure_eq {
    ($a:expr, $b:expr, $sig:expr) => {{
        let (a, b) = (&$a, &$b);
        if a != b {
            return Err($crate::engine::Fail {
                sig: ($sig).to_string(),
                detail: format!("{}: observed {:?}, expected {:?}", stringify!($a), a, b),
            });
        }
    }};
    ($a:expr, $b:expr, $sig:expr, $($arg:tt)*) => {{
        let (a, b) = (&$a, &$b);
        if a != b {
            return Err($crate::engine::Fail {
                sig: ($sig).to_string(),
                detail: format!("{}: observed {:?}, expected {:?} ({})", stringify!($a), a, b, format!($($arg)*)),
            });
        }
    }};
}

pub fn fail<T>(sig: impl Into<String>, detail: impl Into<String>) -> Result<T, Fail> {
    Err(Fail { sig: sig.into(), detail: detail.into() })
}

#[derive(Clone, Debug)]
pub struct Failure {
    pub sub: String,
    pub sig: String,
    pub detail: String,
    pub case: Value,
    pub simplicity: u128,
    pub count: u64,
}

// ---------------------------------------------------------------------------------------------
// Sub-check accumulator
// ---------------------------------------------------------------------------------------------

#[derive(Clone, Copy, Debug, PartialEq, Eq)]
pub enum Tier {
    Quick,
    Thorough,
}

#[derive(Clone)]
pub struct Ctx {
    pub prop: String,
    pub tier: Tier,
    pub seed: u64,
    pub threads: usize,
    pub config: String,
    /// true when the workload is re-run on behalf of C18 (reduced domains, low-opt build)
    pub reduced: bool,
}

impl Ctx {
    pub fn thorough(&self) -> bool {
        self.tier == Tier::Thorough && !self.reduced
    }
    /// C18 thorough: run the (unreduced) quick workloads of the other properties
    pub fn thorough_c18(&self) -> bool {
        self.tier == Tier::Thorough
    }
    /// picks by tier: reduced (C18) / quick / thorough
    pub fn pick<T>(&self, reduced: T, quick: T, thorough: T) -> T {
        if self.reduced {
            reduced
        } else if self.tier == Tier::Thorough {
            thorough
        } else {
            quick
        }
    }
    pub fn sub_seed(&self, name: &str) -> u64 {
        let mut h: u64 = 0xcbf29ce484222325 ^ self.seed.wrapping_mul(0x9E3779B97F4A7C15);
        for b in name.bytes() {
            h ^= b as u64;
            h = h.wrapping_mul(0x100000001b3);
        }
        splitmix(h)
    }
}

pub fn splitmix(mut z: u64) -> u64 {
    z = z.wrapping_add(0x9E3779B97F4A7C15);
    z = (z ^ (z >> 30)).wrapping_mul(0xBF58476D1CE4E5B9);
    z = (z ^ (z >> 27)).wrapping_mul(0x94D049BB133111EB);
    z ^ (z >> 31)
}

/// Deterministic tiny PRNG for choosing samples / pool entries (never used inside a proptest case).
#[derive(Clone)]
pub struct Mix(pub u64);
impl Mix {
    pub fn next(&mut self) -> u64 {
        self.0 = self.0.wrapping_add(0x9E3779B97F4A7C15);
        splitmix(self.0)
    }
    pub fn below(&mut self, n: u64) -> u64 {
        if n == 0 {
            0
        } else {
            ((self.next() as u128 * n as u128) >> 64) as u64
        }
    }
}

#[derive(Clone)]
pub struct Sub {
    pub name: String,
    pub domain: String,
    pub rule: String,
    pub evals: u64,
    pub nontrivial: u64,
    pub nt_hashes: HashSet<u64>,
    pub classes: BTreeMap<String, u64>,
    pub samples: Vec<Value>,
    pub failures: BTreeMap<String, Failure>,
    pub exhaustive: bool,
    pub allocs: u64,
    pub panics: u64,
    pub excluded_known: u64,
    pub states: u64,
    pub transitions: u64,
    pub notes: Vec<String>,
    pub wall_ms: u64,
    pub degenerate: Option<String>,
    /// a supplementary (sampling) sub-check next to sub-checks that enumerate the stated domain
    /// completely; it does not turn the run's `exhaustive` flag off
    pub supplementary: bool,
}

impl Sub {
    pub fn new(name: &str, domain: &str, rule: &str, exhaustive: bool) -> Sub {
        Sub {
            name: name.to_string(),
            domain: domain.to_string(),
            rule: rule.to_string(),
            evals: 0,
            nontrivial: 0,
            nt_hashes: HashSet::new(),
            classes: BTreeMap::new(),
            samples: Vec::new(),
            failures: BTreeMap::new(),
            exhaustive,
            allocs: 0,
            panics: 0,
            excluded_known: 0,
            states: 0,
            transitions: 0,
            notes: Vec::new(),
            wall_ms: 0,
            degenerate: None,
            supplementary: false,
        }
    }

    pub fn like(&self) -> Sub {
        Sub::new(&self.name, &self.domain, &self.rule, self.exhaustive)
    }

    pub fn class(&mut self, c: &str) {
        *self.classes.entry(c.to_string()).or_insert(0) += 1;
    }
    pub fn class_n(&mut self, c: &str, n: u64) {
        *self.classes.entry(c.to_string()).or_insert(0) += n;
    }

    pub fn record(&mut self, f: Fail, case: impl FnOnce() -> Value, simplicity: u128) {
        let key = f.sig.clone();
        match self.failures.get_mut(&key) {
            Some(old) => {
                old.count += 1;
                if simplicity < old.simplicity {
                    old.simplicity = simplicity;
                    old.case = case();
                    old.detail = f.detail;
                }
            }
            None => {
                self.failures.insert(
                    key,
                    Failure {
                        sub: self.name.clone(),
                        sig: f.sig,
                        detail: f.detail,
                        case: case(),
                        simplicity,
                        count: 1,
                    },
                );
            }
        }
    }

    /// Evaluates one case: runs `check` under the panic monitor, accounts allocations made inside
    /// `api` regions, and records failures. `simplicity`: smaller = simpler reproduction.
    #[inline]
    pub fn eval(
        &mut self,
        simplicity: u128,
        case: impl Fn() -> Value,
        check: impl FnOnce() -> CheckResult,
    ) {
        let a0 = allocs();
        let r = guarded(check);
        self.evals += 1;
        match r {
            Ok(Ok(nt)) => {
                if nt {
                    self.nontrivial += 1;
                }
            }
            Ok(Err(f)) => self.record(f, &case, simplicity),
            Err(p) => {
                self.panics += 1;
                self.record(
                    Fail { sig: "panic".into(), detail: format!("unexpected panic: {}", p) },
                    &case,
                    simplicity,
                );
            }
        }
        let a1 = allocs();
        if a1 != a0 {
            self.allocs += a1 - a0;
        }
        if a1 != a0 && judge_allocs() {
            self.record(
                Fail {
                    sig: "alloc".into(),
                    detail: format!("{} heap allocation(s) inside crate calls", a1 - a0),
                },
                &case,
                simplicity,
            );
        }
    }

    pub fn merge(&mut self, o: Sub) {
        self.evals += o.evals;
        self.nontrivial += o.nontrivial;
        self.nt_hashes.extend(o.nt_hashes);
        for (k, v) in o.classes {
            *self.classes.entry(k).or_insert(0) += v;
        }
        for s in o.samples {
            if self.samples.len() < 12 {
                self.samples.push(s);
            }
        }
        for (k, f) in o.failures {
            match self.failures.get_mut(&k) {
                Some(old) => {
                    old.count += f.count;
                    if f.simplicity < old.simplicity {
                        let c = old.count;
                        *old = f;
                        old.count = c;
                    }
                }
                None => {
                    self.failures.insert(k, f);
                }
            }
        }
        self.exhaustive &= o.exhaustive;
        self.allocs += o.allocs;
        self.panics += o.panics;
        self.excluded_known += o.excluded_known;
        self.states += o.states;
        self.transitions += o.transitions;
        self.notes.extend(o.notes);
        self.wall_ms = self.wall_ms.max(o.wall_ms);
        self.supplementary |= o.supplementary;
        if self.degenerate.is_none() {
            self.degenerate = o.degenerate;
        }
    }

    /// Vacuity guard: the class must make up at least `min_permille` of the evaluations.
    pub fn floor(&mut self, class: &str, min_permille: u64) {
        let c = self.classes.get(class).copied().unwrap_or(0);
        if self.evals > 0 && c * 1000 < self.evals * min_permille {
            self.degenerate = Some(format!("class '{}' has {} of {} cases, below the floor of {} permille", class, c, self.evals, min_permille));
        }
    }

    pub fn distinct_nontrivial(&self) -> u64 {
        self.nontrivial + self.nt_hashes.len() as u64
    }

    /// first, last and three seed-chosen members of an indexed domain
    pub fn add_samples(&mut self, n: u64, seed: u64, describe: impl Fn(u64) -> Value) {
        if n == 0 {
            return;
        }
        let mut idx = vec![0, n - 1];
        let mut m = Mix(seed ^ 0x5a5a);
        for _ in 0..3 {
            idx.push(m.below(n));
        }
        for i in idx {
            self.samples.push(describe(i));
        }
    }

    pub fn to_json(&self) -> Value {
        json!({
            "name": self.name,
            "domain": self.domain,
            "rule": self.rule,
            "evaluations": self.evals,
            "distinct_nontrivial": self.distinct_nontrivial(),
            "exhaustive": self.exhaustive,
            "classes": self.classes,
            "states": self.states,
            "transitions": self.transitions,
            "allocations_in_crate_calls": self.allocs,
            "panics": self.panics,
            "excluded_known": self.excluded_known,
            "samples": self.samples.iter().take(1).collect::<Vec<_>>(),
            "notes": self.notes,
            "wall_ms": self.wall_ms,
            "generator_degenerate": self.degenerate,
            "supplementary": self.supplementary,
            "failures": self.failures.values().map(|f| json!({"sig": f.sig, "count": f.count, "detail": f.detail, "case": f.case})).collect::<Vec<_>>(),
        })
    }
}

// ---------------------------------------------------------------------------------------------
// Sharded enumeration
// ---------------------------------------------------------------------------------------------

/// Enumerates `0..n` over `threads` contiguous shards; results merged in shard order.
pub fn par_enum(ctx: &Ctx, proto: &Sub, n: u64, f: impl Fn(&mut Sub, u64) + Sync) -> Sub {
    let threads = ctx.threads.max(1) as u64;
    let threads = threads.min(n.max(1));
    let chunk = (n + threads - 1) / threads.max(1);
    let mut out = proto.like();
    let t0 = Instant::now();
    let parts: Vec<Sub> = std::thread::scope(|s| {
        let mut hs = Vec::new();
        for t in 0..threads {
            let lo = t * chunk;
            let hi = ((t + 1) * chunk).min(n);
            let mut sub = proto.like();
            let f = &f;
            hs.push(s.spawn(move || {
                let mut i = lo;
                while i < hi {
                    f(&mut sub, i);
                    i += 1;
                }
                sub
            }));
        }
        hs.into_iter().map(|h| h.join().expect("worker thread died")).collect()
    });
    for p in parts {
        out.merge(p);
    }
    out.exhaustive = proto.exhaustive;
    out.wall_ms = t0.elapsed().as_millis() as u64;
    out
}

// ---------------------------------------------------------------------------------------------
// proptest runner (style R)
// ---------------------------------------------------------------------------------------------

pub fn rng_for(seed: u64) -> TestRng {
    let mut bytes = [0u8; 32];
    let mut m = Mix(seed);
    for c in bytes.chunks_mut(8) {
        c.copy_from_slice(&m.next().to_le_bytes());
    }
    TestRng::from_seed(RngAlgorithm::ChaCha, &bytes)
}

pub struct ROutcome {
    pub nontrivial: bool,
    pub classes: Vec<&'static str>,
    pub hash: u64,
}

/// Runs `cases` generated cases of `strategy` over `ctx.threads` shards. `check` returns the
/// classification of the case or a failure. On failure proptest shrinks the case; the shrunk case
/// is re-checked to obtain its (possibly different) failure and recorded.
pub fn par_proptest<S, T>(
    ctx: &Ctx,
    proto: &Sub,
    cases: u64,
    make_strategy: impl Fn() -> S + Sync,
    to_json: impl Fn(&T) -> Value + Sync,
    check: impl Fn(&T) -> Result<ROutcome, Fail> + Sync,
) -> Sub
where
    S: Strategy<Value = T>,
    T: std::fmt::Debug + Clone,
{
    let threads = (ctx.threads.max(1) as u64).min(cases.max(1));
    let per = (cases + threads - 1) / threads;
    let base_seed = ctx.sub_seed(&proto.name);
    let mut out = proto.like();
    let t0 = Instant::now();
    let parts: Vec<Sub> = std::thread::scope(|s| {
        let mut hs = Vec::new();
        for t in 0..threads {
            let mut sub = proto.like();
            let make_strategy = &make_strategy;
            let to_json = &to_json;
            let check = &check;
            hs.push(s.spawn(move || {
                let config = Config {
                    cases: per as u32,
                    failure_persistence: None,
                    max_shrink_iters: 20_000,
                    max_global_rejects: 1,
                    ..Config::default()
                };
                let mut runner =
                    TestRunner::new_with_rng(config, rng_for(splitmix(base_seed ^ (t + 1))));
                let strategy = make_strategy();
                let failed = Cell::new(false);
                let subc = RefCell::new(&mut sub);
                let res = runner.run(&strategy, |case| {
                    let a0 = allocs();
                    let r = guarded(|| check(&case));
                    let a1 = allocs();
                    let verdict: Result<ROutcome, Fail> = match r {
                        Ok(Ok(o)) => {
                            if a1 != a0 && judge_allocs() {
                                Err(Fail {
                                    sig: "alloc".into(),
                                    detail: format!("{} heap allocation(s) inside crate calls", a1 - a0),
                                })
                            } else {
                                Ok(o)
                            }
                        }
                        Ok(Err(f)) => Err(f),
                        Err(p) => Err(Fail { sig: "panic".into(), detail: format!("unexpected panic: {}", p) }),
                    };
                    match verdict {
                        Ok(o) => {
                            if !failed.get() {
                                let mut sub = subc.borrow_mut();
                                sub.evals += 1;
                                sub.allocs += a1 - a0;
                                if o.nontrivial {
                                    sub.nt_hashes.insert(o.hash);
                                }
                                for c in o.classes {
                                    sub.class(c);
                                }
                                if sub.samples.len() < 2 || (sub.samples.len() < 3 && o.nontrivial) {
                                    let j = to_json(&case);
                                    sub.samples.push(j);
                                }
                            }
                            Ok(())
                        }
                        Err(f) => {
                            if !failed.get() {
                                failed.set(true);
                                subc.borrow_mut().evals += 1;
                            }
                            Err(TestCaseError::fail(f.sig))
                        }
                    }
                });
                drop(subc);
                if let Err(e) = res {
                    match e {
                        TestError::Fail(_, minimal) => {
                            // re-check the minimal case to get its own failure description
                            let r = guarded(|| check(&minimal));
                            let f = match r {
                                Ok(Ok(_)) => Fail {
                                    sig: "unstable".into(),
                                    detail: "shrunk case passed when re-checked (allocation-only or flaky failure)".into(),
                                },
                                Ok(Err(f)) => f,
                                Err(p) => Fail { sig: "panic".into(), detail: format!("unexpected panic: {}", p) },
                            };
                            let j = to_json(&minimal);
                            let simp = j.to_string().len() as u128;
                            sub.record(f, || j.clone(), simp);
                        }
                        TestError::Abort(r) => {
                            sub.notes.push(format!("proptest aborted: {}", r));
                        }
                    }
                }
                sub
            }));
        }
        hs.into_iter().map(|h| h.join().expect("worker thread died")).collect()
    });
    for p in parts {
        out.merge(p);
    }
    out.exhaustive = false;
    out.wall_ms = t0.elapsed().as_millis() as u64;
    out
}

/// Generates one value of a strategy from a seed (used to build pools / samples deterministically).
pub fn generate_one<S: Strategy>(strategy: &S, seed: u64) -> S::Value {
    let mut runner = TestRunner::new_with_rng(Config::default(), rng_for(seed));
    strategy.new_tree(&mut runner).expect("strategy failed").current()
}

pub fn hash64<T: std::hash::Hash>(t: &T) -> u64 {
    use std::hash::Hasher;
    let mut h = std::collections::hash_map::DefaultHasher::new();
    t.hash(&mut h);
    h.finish()
}

// ---------------------------------------------------------------------------------------------
// Report: evidence + replay files + exit code
// ---------------------------------------------------------------------------------------------

pub struct Report {
    pub subs: Vec<Sub>,
    pub assumptions: Vec<String>,
    pub rule: String,
}

pub fn tier_name(t: Tier) -> &'static str {
    match t {
        Tier::Quick => "quick",
        Tier::Thorough => "thorough",
    }
}

pub struct KnownFindings {
    /// (property, signature, description)
    pub known: Vec<(String, String, String)>,
}

impl KnownFindings {
    pub fn load(path: &str) -> KnownFindings {
        let mut known = Vec::new();
        if let Ok(s) = std::fs::read_to_string(path) {
            for line in s.lines() {
                let line = line.trim();
                if let Some(rest) = line.strip_prefix("known:") {
                    let mut prop = String::new();
                    let mut sig = String::new();
                    let mut desc = Vec::new();
                    for tok in rest.split_whitespace() {
                        if let Some(p) = tok.strip_prefix("property=") {
                            prop = p.to_string();
                        } else if let Some(s) = tok.strip_prefix("sig=") {
                            sig = s.to_string();
                        } else {
                            desc.push(tok);
                        }
                    }
                    known.push((prop, sig, desc.join(" ")));
                }
            }
        }
        KnownFindings { known }
    }
    pub fn find(&self, prop: &str, full_sig: &str) -> Option<&(String, String, String)> {
        self.known.iter().find(|(p, s, _)| p == prop && s == full_sig)
    }
}

fn short_hash(s: &str) -> String {
    format!("{:08x}", hash_str(s) as u32)
}

pub fn hash_str(s: &str) -> u64 {
    let mut h: u64 = 0xcbf29ce484222325;
    for b in s.bytes() {
        h ^= b as u64;
        h = h.wrapping_mul(0x100000001b3);
    }
    h
}

pub struct Finish {
    pub exit_code: i32,
}

/// Writes replay files for new violations, prints VIOLATION / KNOWN-FINDING lines, writes the
/// evidence file (or a partial file), returns the exit code.
#[allow(clippy::too_many_arguments)]
pub fn finish(
    ctx: &Ctx,
    report: Report,
    started: Instant,
    partial_out: Option<&str>,
    merge: &[String],
    verif_dir: &str,
) -> Finish {
    let known = KnownFindings::load(&format!("{}/known_findings.txt", verif_dir));
    let mut violations = 0i64;
    let mut known_hits: BTreeMap<String, String> = BTreeMap::new();
    let mut lines = Vec::new();
    let mut sub_json = Vec::new();
    let mut evals = 0u64;
    let mut nt = 0u64;
    let mut exhaustive = !report.subs.is_empty();
    let mut samples = Vec::new();
    let mut states = 0u64;
    let mut transitions = 0u64;
    let mut excluded = 0u64;
    for sub in &report.subs {
        evals += sub.evals;
        nt += sub.distinct_nontrivial();
        exhaustive &= sub.exhaustive || sub.supplementary;
        states += sub.states;
        transitions += sub.transitions;
        excluded += sub.excluded_known;
        for s in sub.samples.iter().take(if report.subs.len() > 20 { 1 } else { 3 }) {
            samples.push(json!({"sub": sub.name, "config": ctx.config, "case": s}));
        }
        let mut sj = sub.to_json();
        sj["config"] = json!(ctx.config);
        sub_json.push(sj);
        for f in sub.failures.values() {
            let full_sig = format!("{}/{}", sub.name, f.sig);
            if let Some((_, _, desc)) = known.find(&ctx.prop, &full_sig) {
                known_hits.insert(full_sig.clone(), desc.clone());
                continue;
            }
            violations += 1;
            let body = json!({
                "property": ctx.prop,
                "config": ctx.config,
                "sub": sub.name,
                "signature": full_sig,
                "case": f.case,
                "detail": f.detail,
                "occurrences_in_run": f.count,
                "tier": tier_name(ctx.tier),
                "seed": ctx.seed,
            });
            let text = serde_json::to_string_pretty(&body).unwrap();
            let replay_dir = std::env::var("VERIF_REPLAY_DIR").unwrap_or_else(|_| format!("{}/replays", verif_dir));
            let path = format!(
                "{}/{}-{}-{}.json",
                replay_dir,
                ctx.prop,
                sub.name.replace('/', "_"),
                short_hash(&format!("{}{}", full_sig, f.case))
            );
            let _ = std::fs::create_dir_all(&replay_dir);
            if let Err(e) = std::fs::write(&path, text) {
                eprintln!("cannot write replay file {}: {}", path, e);
            }
            lines.push(format!("VIOLATION property={} replay={}", ctx.prop, path));
            eprintln!("  [{}] {} :: {}", ctx.prop, full_sig, f.detail);
        }
    }
    for (sig, desc) in &known_hits {
        println!("KNOWN-FINDING: property={} sig={} {}", ctx.prop, sig, desc);
    }
    // at most 25 VIOLATION lines (one per failure signature, each with its replay file); all
    // signatures are in the evidence file
    for l in lines.iter().take(25) {
        println!("{}", l);
    }
    if lines.len() > 25 {
        eprintln!("  ... and {} more failure signature(s), see the evidence file", lines.len() - 25);
    }

    // merge partial evidence of other configurations
    let mut merged_parts = Vec::new();
    for m in merge {
        match std::fs::read_to_string(m).ok().and_then(|s| serde_json::from_str::<Value>(&s).ok()) {
            Some(v) => {
                evals += v["evaluations"].as_u64().unwrap_or(0);
                nt += v["distinct_nontrivial"].as_u64().unwrap_or(0);
                exhaustive &= v["exhaustive"].as_bool().unwrap_or(false);
                violations += v["violations"].as_i64().unwrap_or(0);
                states += v["states"].as_u64().unwrap_or(0);
                transitions += v["transitions"].as_u64().unwrap_or(0);
                if let Some(a) = v["samples"].as_array() {
                    for s in a.iter().take(6) {
                        samples.push(s.clone());
                    }
                }
                if let Some(a) = v["subchecks"].as_array() {
                    for s in a {
                        sub_json.push(s.clone());
                    }
                }
                merged_parts.push(v["config"].clone());
            }
            None => {
                eprintln!("missing partial evidence {}", m);
                return Finish { exit_code: 2 };
            }
        }
    }

    let wall = started.elapsed().as_secs_f64();
    if let Some(p) = partial_out {
        let v = json!({
            "config": ctx.config,
            "evaluations": evals,
            "distinct_nontrivial": nt,
            "exhaustive": exhaustive,
            "violations": violations,
            "states": states,
            "transitions": transitions,
            "samples": samples,
            "subchecks": sub_json,
            "wall_s": wall,
        });
        if std::fs::write(p, serde_json::to_string_pretty(&v).unwrap()).is_err() {
            return Finish { exit_code: 2 };
        }
    } else {
        let mut cov = Map::new();
        cov.insert("evaluations".into(), json!(evals));
        cov.insert("distinct_nontrivial".into(), json!(nt));
        cov.insert("rule".into(), json!(report.rule));
        cov.insert("samples".into(), json!(samples));
        cov.insert("exhaustive".into(), json!(exhaustive));
        if states > 0 {
            cov.insert("states".into(), json!(states));
            cov.insert("transitions".into(), json!(transitions));
        }
        cov.insert("excluded_known".into(), json!(excluded));
        cov.insert("configurations".into(), {
            let mut c = merged_parts.clone();
            c.push(json!(ctx.config));
            json!(c)
        });
        cov.insert("subchecks".into(), json!(sub_json));
        let ev = json!({
            "property_id": ctx.prop,
            "tier": tier_name(ctx.tier),
            "seed": ctx.seed,
            "level": "exploration",
            "coverage": Value::Object(cov),
            "assumptions": report.assumptions,
            "wall_s": wall,
            "violations": violations,
            "known_findings_hit": known_hits.keys().collect::<Vec<_>>(),
        });
        let ev_dir = std::env::var("VERIF_EVIDENCE_DIR").unwrap_or_else(|_| format!("{}/evidence", verif_dir));
        let path = format!("{}/{}.json", ev_dir, ctx.prop);
        let _ = std::fs::create_dir_all(&ev_dir);
        if let Err(e) = std::fs::write(&path, serde_json::to_string_pretty(&ev).unwrap()) {
            eprintln!("cannot write evidence {}: {}", path, e);
            return Finish { exit_code: 2 };
        }
    }
    eprintln!(
        "[{} {} {}] evaluations={} distinct_nontrivial={} exhaustive={} violations={} wall={:.1}s",
        ctx.prop,
        tier_name(ctx.tier),
        ctx.config,
        evals,
        nt,
        exhaustive,
        violations,
        wall
    );
    let mut code = if lines.is_empty() { 0 } else { 1 };
    if code == 0 {
        for sub in &report.subs {
            if let Some(d) = &sub.degenerate {
                eprintln!("check: generator degenerate in sub-check {}: {} (infrastructure problem, not a verdict)", sub.name, d);
                code = 2;
            }
        }
    }
    Finish { exit_code: code }
}

// ---------------------------------------------------------------------------------------------
// JSON helpers for cases
// ---------------------------------------------------------------------------------------------

pub fn int_json(v: i128) -> Value {
    if v >= i64::MIN as i128 && v <= i64::MAX as i128 {
        json!(v as i64)
    } else if v >= 0 && v <= u64::MAX as i128 {
        json!(v as u64)
    } else {
        json!(v.to_string())
    }
}

pub fn json_int(v: &Value) -> Option<i128> {
    if let Some(i) = v.as_i64() {
        Some(i as i128)
    } else if let Some(u) = v.as_u64() {
        Some(u as i128)
    } else if let Some(s) = v.as_str() {
        s.parse::<i128>().ok()
    } else {
        None
    }
}

pub fn json_u64(v: &Value) -> Option<u64> {
    json_int(v).and_then(|i| if i >= 0 && i <= u64::MAX as i128 { Some(i as u64) } else { None })
}

pub fn json_u8(v: &Value) -> Option<u8> {
    json_int(v).and_then(|i| if (0..=255).contains(&i) { Some(i as u8) } else { None })
}
