//! Harness-defined third-party implementors of the ShortMessage traits, and carrier dispatch.
use helgoboss_midi::{RawShortMessage, ShortMessage, ShortMessageFactory, StructuredShortMessage, U7};

/// A "foreign" message type: bigger than a short message (extra payload), implements only the
/// three byte getters and the one required factory method.
#[derive(Clone, Debug, PartialEq, Eq)]
pub struct Foreign {
    pub frame_offset: u64,
    pub status: u8,
    pub d1: U7,
    pub d2: U7,
    pub tag: u32,
}

impl ShortMessage for Foreign {
    fn status_byte(&self) -> u8 {
        self.status
    }
    fn data_byte_1(&self) -> U7 {
        self.d1
    }
    fn data_byte_2(&self) -> U7 {
        self.d2
    }
}

impl ShortMessageFactory for Foreign {
    unsafe fn from_bytes_unchecked(bytes: (u8, U7, U7)) -> Self {
        Foreign { frame_offset: 0xDEAD_BEEF_0BAD_F00D, status: bytes.0, d1: bytes.1, d2: bytes.2, tag: 0x5151_5151 }
    }
}

/// A second foreign type that additionally overrides `to_bytes` (as the trait docs invite).
#[derive(Clone, Copy, Debug, PartialEq, Eq)]
pub struct ForeignTuple(pub [u8; 3]);

impl ShortMessage for ForeignTuple {
    fn status_byte(&self) -> u8 {
        self.0[0]
    }
    fn data_byte_1(&self) -> U7 {
        // the bytes were U7 when stored
        core::convert::TryFrom::try_from(self.0[1]).expect("harness invariant: data byte is 7-bit")
    }
    fn data_byte_2(&self) -> U7 {
        core::convert::TryFrom::try_from(self.0[2]).expect("harness invariant: data byte is 7-bit")
    }
    fn to_bytes(&self) -> (u8, U7, U7) {
        (self.0[0], self.data_byte_1(), self.data_byte_2())
    }
}

impl ShortMessageFactory for ForeignTuple {
    unsafe fn from_bytes_unchecked(bytes: (u8, U7, U7)) -> Self {
        ForeignTuple([bytes.0, bytes.1.get(), bytes.2.get()])
    }
}

pub const IMPL_NAMES: [&str; 4] = ["Raw", "Structured", "Foreign", "ForeignTuple"];
pub const RAW: u8 = 0;
pub const STRUCTURED: u8 = 1;
pub const FOREIGN: u8 = 2;
pub const FOREIGN_TUPLE: u8 = 3;

/// Builds a U7 from a harness-side `u8` that is known to be <= 127 (checked).
#[inline]
pub fn u7(v: u8) -> U7 {
    core::convert::TryFrom::try_from(v).expect("harness bug: data byte > 127")
}

/// Visitor over "some implementation of ShortMessage + ShortMessageFactory".
pub trait WithMsg {
    type Out;
    fn call<M: ShortMessage + ShortMessageFactory + core::fmt::Debug>(self, m: &M) -> Self::Out;
}

/// Creates the message (status >= 0x80 required) in the implementation selected by `carrier`
/// through `from_bytes` and passes it to the visitor.
pub fn with_msg<V: WithMsg>(carrier: u8, s: u8, d1: u8, d2: u8, v: V) -> V::Out {
    let bytes = (s, u7(d1), u7(d2));
    use crate::engine::api;
    match carrier & 3 {
        0 => v.call(&api(|| RawShortMessage::from_bytes(bytes)).expect("valid status")),
        1 => v.call(&api(|| StructuredShortMessage::from_bytes(bytes)).expect("valid status")),
        2 => v.call(&api(|| Foreign::from_bytes(bytes)).expect("valid status")),
        _ => v.call(&api(|| ForeignTuple::from_bytes(bytes)).expect("valid status")),
    }
}

/// A third-party factory that *relies on the documented precondition* of `from_bytes_unchecked`
/// ("callers must make sure that the given status byte is valid"): it stores only the seven low
/// bits of the status byte and re-adds the high bit when asked.
#[derive(Clone, Copy, Debug, PartialEq, Eq)]
pub struct ForeignMasked {
    pub status7: u8,
    pub d1: U7,
    pub d2: U7,
}

impl ShortMessage for ForeignMasked {
    fn status_byte(&self) -> u8 {
        0x80 | self.status7
    }
    fn data_byte_1(&self) -> U7 {
        self.d1
    }
    fn data_byte_2(&self) -> U7 {
        self.d2
    }
}

impl ShortMessageFactory for ForeignMasked {
    unsafe fn from_bytes_unchecked(bytes: (u8, U7, U7)) -> Self {
        ForeignMasked { status7: bytes.0 & 0x7f, d1: bytes.1, d2: bytes.2 }
    }
}

// ---------------------------------------------------------------------------------------------
// Compile-time probes (autoref specialisation): does some *other* type implement the traits?
// If a later version of the crate adds an implementor (a byte tuple, `&M`, ...), the checks pick
// it up without the harness having to name an impl that does not exist today.
// ---------------------------------------------------------------------------------------------

pub struct Probe<T>(pub core::marker::PhantomData<T>);

pub fn probe<T>() -> Probe<T> {
    Probe(core::marker::PhantomData)
}

/// (status, d1, d2) of a message through its three getters and through to_bytes
pub type ProbeBytes = ((u8, u8, u8), (u8, u8, u8));

pub trait ProbeFactoryYes<T> {
    /// Some(result of from_bytes as observed bytes) if T implements the factory trait
    fn try_from_bytes(&self, b: (u8, U7, U7)) -> Option<Result<ProbeBytes, ()>>;
}
impl<T: ShortMessageFactory> ProbeFactoryYes<T> for Probe<T> {
    fn try_from_bytes(&self, b: (u8, U7, U7)) -> Option<Result<ProbeBytes, ()>> {
        use crate::engine::api;
        Some(api(|| T::from_bytes(b)).map(|m| {
            let t = api(|| m.to_bytes());
            ((api(|| m.status_byte()), api(|| m.data_byte_1()).get(), api(|| m.data_byte_2()).get()), (t.0, t.1.get(), t.2.get()))
        }).map_err(|_| ()))
    }
}
pub trait ProbeFactoryNo<T> {
    fn try_from_bytes(&self, _b: (u8, U7, U7)) -> Option<Result<ProbeBytes, ()>> {
        None
    }
}
impl<T> ProbeFactoryNo<T> for &Probe<T> {}

pub trait ProbeMessageYes<T> {
    fn with_message<R>(&self, value: &T, f: &mut dyn FnMut(&dyn ErasedMessage) -> R) -> Option<R>;
}
/// object-safe view used by the probes
pub trait ErasedMessage {
    fn observe(&self) -> crate::p_short::Obs;
}
impl<M: ShortMessage> ErasedMessage for M {
    fn observe(&self) -> crate::p_short::Obs {
        crate::p_short::observe(self)
    }
}
impl<T: ShortMessage> ProbeMessageYes<T> for Probe<T> {
    fn with_message<R>(&self, value: &T, f: &mut dyn FnMut(&dyn ErasedMessage) -> R) -> Option<R> {
        Some(f(value))
    }
}
pub trait ProbeMessageNo<T> {
    fn with_message<R>(&self, _value: &T, _f: &mut dyn FnMut(&dyn ErasedMessage) -> R) -> Option<R> {
        None
    }
}
impl<T> ProbeMessageNo<T> for &Probe<T> {}
