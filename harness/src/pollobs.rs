//! `PollObserver`: a *history observer* for the polling (N)RPN scanner (C13, C14). It is not a copy
//! of the scanner's state machine: it records, per channel since the last reset, the facts the
//! properties talk about (latest number bytes and their kind, the most recent controller-6 and
//! controller-38 bytes with feed time and "reported as 7-bit" / "used in a 14-bit value" marks)
//! and judges every call's output against them.
use crate::engine::Fail;
use crate::refmodel::PnReport;

/// A failure tagged with the properties whose statement it violates.
#[derive(Clone, Debug)]
pub struct TFail {
    pub props: &'static [&'static str],
    pub fail: Fail,
}

fn tf<T>(props: &'static [&'static str], sig: &str, detail: String) -> Result<T, TFail> {
    Err(TFail { props, fail: Fail { sig: sig.to_string(), detail } })
}

#[derive(Clone, Copy, PartialEq, Eq, Hash, Debug)]
pub struct Cc6 {
    pub v: u8,
    pub t: u64,
    /// both number halves were known when it was fed
    pub complete: bool,
    pub reported7: bool,
    pub used14: bool,
}

impl Cc6 {
    pub fn outstanding(&self) -> bool {
        self.complete && !self.reported7 && !self.used14
    }
}

#[derive(Clone, Copy, PartialEq, Eq, Hash, Debug, Default)]
pub struct ObsCh {
    pub num_msb: Option<u8>,
    pub num_lsb: Option<u8>,
    /// kind of the most recent number byte
    pub reg: bool,
    pub cc6: Option<Cc6>,
    pub cc38: Option<u8>,
    /// feed time of the most recent controller-6 or controller-38 byte
    pub t_v: Option<u64>,
}

impl ObsCh {
    pub fn complete(&self) -> bool {
        self.num_msb.is_some() && self.num_lsb.is_some()
    }
    pub fn number(&self) -> Option<u16> {
        Some(128 * self.num_msb? as u16 + self.num_lsb? as u16)
    }
    pub fn outstanding(&self) -> Option<Cc6> {
        self.cc6.filter(|c| c.outstanding())
    }
}

#[derive(Clone, Copy, PartialEq, Eq, Hash, Debug)]
pub struct PollObserver {
    pub ch: [ObsCh; 16],
    /// None = effectively infinite (Duration::MAX)
    pub timeout: Option<u64>,
}

const P14: &[&str] = &["C14"];
const P14_15: &[&str] = &["C14", "C15"];
const P14_16: &[&str] = &["C14", "C16"];
const P13: &[&str] = &["C13"];
const P13_14: &[&str] = &["C13", "C14"];
const P13_14_15: &[&str] = &["C13", "C14", "C15"];

pub fn is_7bit_entry(m: &PnReport) -> bool {
    !m.is_14_bit && m.kind == 0
}

impl PollObserver {
    pub fn new(timeout: Option<u64>) -> PollObserver {
        PollObserver { ch: [ObsCh::default(); 16], timeout }
    }

    pub fn reset(&mut self) {
        self.ch = [ObsCh::default(); 16];
    }

    fn late(&self, now: u64, t: u64) -> bool {
        match self.timeout {
            None => false,
            Some(to) => now.saturating_sub(t) >= to,
        }
    }

    /// Judges the output of `feed` of the short message (s, d1, d2) at time `now`.
    pub fn on_feed(&mut self, now: u64, s: u8, d1: u8, d2: u8, out: &[Option<PnReport>; 2]) -> Result<(), TFail> {
        let contributing = s >> 4 == 0xB && matches!(d1, 6 | 38 | 96..=101);
        if !contributing {
            if out[0].is_some() || out[1].is_some() {
                return tf(P14_16, "feed/report_for_non_contributing_message", format!("feed({:#04x},{},{}) returned {:?}", s, d1, d2, out));
            }
            return Ok(());
        }
        let c = (s & 15) as usize;
        let before = self.ch[c];
        let mut st = before;
        if out[0].is_none() && out[1].is_some() {
            return tf(P14, "feed/second_message_without_first", format!("cc {} = {} on channel {} returned {:?}", d1, d2, c, out));
        }
        if let (Some(a), Some(b)) = (&out[0], &out[1]) {
            let ok = matches!(d1, 96 | 97) && is_7bit_entry(a) && !b.is_14_bit && b.kind != 0;
            if !ok {
                return tf(P14, "feed/two_messages_wrong_shape", format!("cc {} = {} on channel {} returned {:?}", d1, d2, c, out));
            }
        }
        let mut used14_now = false;
        for m in out.iter().flatten() {
            if m.channel as usize != c {
                return tf(P14_15, "feed/wrong_channel", format!("cc {} = {} on channel {} reported {:?}", d1, d2, c, m));
            }
            let number = match before.number() {
                Some(n) => n,
                None => return tf(P14, "feed/report_before_number_complete", format!("cc {} = {} on channel {} reported {:?} but number bytes so far are msb {:?} lsb {:?}", d1, d2, c, m, before.num_msb, before.num_lsb)),
            };
            if m.number != number || m.registered != before.reg {
                return tf(P14, "feed/wrong_number_or_kind", format!("cc {} = {} on channel {} reported {:?}; latest number bytes before the call give number {} registered {}", d1, d2, c, m, number, before.reg));
            }
            if m.is_14_bit {
                if m.kind != 0 {
                    return tf(P14, "feed/fourteen_bit_not_data_entry", format!("{:?}", m));
                }
                let pair = match d1 {
                    6 => before.cc38.map(|l| (d2, l)),
                    38 => st.cc6.map(|p| (p.v, d2)),
                    _ => None,
                };
                match pair {
                    Some((hi, lo)) if m.value == 128 * hi as u16 + lo as u16 => {
                        used14_now = true;
                        if d1 == 38 {
                            if let Some(p) = st.cc6.as_mut() {
                                p.used14 = true;
                            }
                        }
                    }
                    _ => {
                        return tf(P14, "feed/fourteen_bit_unjustified", format!("cc {} = {} on channel {} reported {:?}; most recent cc6 {:?}, cc38 {:?}", d1, d2, c, m, before.cc6, before.cc38));
                    }
                }
            } else if m.kind != 0 {
                let want_cn = if m.kind == 1 { 96 } else { 97 };
                if d1 != want_cn || m.value != d2 as u16 {
                    return tf(P14, "feed/incdec_not_current_message", format!("cc {} = {} on channel {} reported {:?}", d1, d2, c, m));
                }
            } else {
                // 7-bit data entry: flush of the most recent controller-6 byte received before the call
                match st.cc6.as_mut() {
                    Some(p) if p.v as u16 == m.value && !p.reported7 && !p.used14 => p.reported7 = true,
                    Some(p) => {
                        let cause = if p.v as u16 != m.value {
                            "wrong_value"
                        } else if p.reported7 {
                            "duplicate"
                        } else {
                            "after_14_bit"
                        };
                        return tf(P14, &format!("feed/seven_bit_unjustified/{}", cause), format!("cc {} = {} on channel {} reported {:?}; most recent cc6 before the call: {:?}", d1, d2, c, m, p));
                    }
                    None => return tf(P14, "feed/seven_bit_unjustified/no_cc6_received", format!("cc {} = {} on channel {} reported {:?}", d1, d2, c, m)),
                }
            }
        }
        // no loss: an outstanding controller-6 byte must be reported by this very call
        if let Some(p) = before.outstanding() {
            let now_done = st.cc6.map_or(false, |q| q.reported7 || q.used14);
            if !now_done {
                return tf(P14, "feed/lost_data_entry", format!("cc {} = {} on channel {} returned {:?} although the controller-6 value {} (fed at {} with a complete number) was still unreported", d1, d2, c, out, p.v, p.t));
            }
        }
        // record the current message
        match d1 {
            99 | 101 => {
                st.num_msb = Some(d2);
                st.reg = d1 == 101;
            }
            98 | 100 => {
                st.num_lsb = Some(d2);
                st.reg = d1 == 100;
            }
            38 => {
                st.cc38 = Some(d2);
                st.t_v = Some(now);
            }
            6 => {
                st.cc6 = Some(Cc6 { v: d2, t: now, complete: before.complete(), reported7: false, used14: used14_now });
                st.t_v = Some(now);
            }
            _ => {}
        }
        self.ch[c] = st;
        Ok(())
    }

    /// What an exact `poll(c)` at time `now` must return.
    pub fn expected_poll(&self, now: u64, c: u8) -> Option<PnReport> {
        let st = &self.ch[c as usize];
        let p = st.outstanding()?;
        if !self.late(now, p.t) {
            return None;
        }
        Some(PnReport { channel: c, number: st.number()?, value: p.v as u16, registered: st.reg, is_14_bit: false, kind: 0 })
    }

    /// Is a poll on `c` at `now` an *early* poll in the sense of C13 (must have no effect)?
    pub fn poll_is_early(&self, now: u64, c: u8) -> bool {
        match self.ch[c as usize].t_v {
            None => true,
            Some(t) => !self.late(now, t),
        }
    }

    /// Judges the output of `poll(c)` at time `now`; `unchanged` = the scanner compares equal to
    /// its copy taken before the call.
    pub fn on_poll(&mut self, now: u64, c: u8, out: &Option<PnReport>, unchanged: bool) -> Result<(), TFail> {
        let want = self.expected_poll(now, c);
        let early = self.poll_is_early(now, c);
        let st = self.ch[c as usize];
        match (out, &want) {
            (Some(m), None) => {
                let cause = match st.cc6 {
                    None => "no_data_entry_msb_received",
                    Some(p) if p.reported7 => "already_reported",
                    Some(p) if p.used14 => "part_of_14_bit_value",
                    Some(p) if !p.complete => "fed_before_number_complete",
                    Some(_) => "before_timeout",
                };
                return tf(P13_14, &format!("poll/unjustified/{}", cause), format!("poll({}) at t={} returned {:?}; observer: {:?}, timeout {:?}", c, now, m, st, self.timeout));
            }
            (None, Some(w)) => {
                // exactly at the deadline only C13 ("at least the timeout has passed") demands the report;
                // strictly after it C14's "first poll after the timeout" demands it as well
                let strictly_after = match (st.cc6, self.timeout) {
                    (Some(p), Some(to)) => now.saturating_sub(p.t) > to,
                    _ => false,
                };
                return tf(if strictly_after { P13_14 } else { P13 }, "poll/missing_after_timeout", format!("poll({}) at t={} returned nothing, expected {:?} (fed at {:?}, timeout {:?})", c, now, w, st.cc6.map(|p| p.t), self.timeout));
            }
            (Some(m), Some(w)) => {
                if m != w {
                    let props = if m.channel != w.channel { P13_14_15 } else { P13_14 };
                    return tf(props, "poll/wrong_message", format!("poll({}) at t={} returned {:?}, expected {:?}", c, now, m, w));
                }
                if let Some(p) = self.ch[c as usize].cc6.as_mut() {
                    p.reported7 = true;
                }
            }
            (None, None) => {}
        }
        if early && !unchanged {
            return tf(P13, "poll/early_poll_changed_state", format!("poll({}) at t={} (before the timeout {:?} relative to the last value byte at {:?}) changed the scanner", c, now, self.timeout, st.t_v));
        }
        Ok(())
    }

    /// Canonical finite key of the observer state of one channel for style-B pruning: ages are
    /// capped at `cap`, the age of a controller-6 byte only matters while it is outstanding.
    pub fn key_words(&self, now: u64, c: u8, cap: u64) -> [u64; 4] {
        let st = &self.ch[c as usize];
        let o = |x: Option<u8>| x.map_or(255u64, |v| v as u64);
        let cc6 = match st.cc6 {
            None => u64::MAX,
            Some(p) => {
                let age = if p.outstanding() { now.saturating_sub(p.t).min(cap) } else { 0 };
                (p.v as u64) | (age << 8) | ((p.complete as u64) << 40) | ((p.reported7 as u64) << 41) | ((p.used14 as u64) << 42)
            }
        };
        let tv = st.t_v.map_or(u64::MAX, |t| now.saturating_sub(t).min(cap));
        [o(st.num_msb) | o(st.num_lsb) << 8 | (st.reg as u64) << 16 | o(st.cc38) << 24, cc6, tv, 0]
    }
}
