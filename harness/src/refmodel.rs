//! Reference models written from the MIDI 1.0 status table and from the wording of the listed
//! properties - deliberately independent of the crate's code (plain integers, literal tables).
use helgoboss_midi::{
    Channel, ControllerNumber, KeyNumber, ShortMessageType, StructuredShortMessage, TimeCodeQuarterFrame,
    TimeCodeType, U14, U4, U7,
};
use std::convert::TryFrom;

#[derive(Clone, Copy, PartialEq, Eq, Debug)]
pub enum RSuper {
    ChannelVoice,
    ChannelMode,
    SystemCommon,
    SystemRealTime,
    SystemExclusive,
}

#[derive(Clone, Copy, PartialEq, Eq, Debug)]
pub enum RMain {
    Channel,
    System,
}

#[derive(Clone, Copy, PartialEq, Eq, Debug)]
pub struct Decoded {
    /// canonical type byte: high nibble << 4 for channel messages, the whole byte for system ones
    pub type_byte: u8,
    pub channel: Option<u8>,
    pub super_type: RSuper,
    pub main: RMain,
    pub key: Option<u8>,
    pub velocity: Option<u8>,
    pub controller: Option<u8>,
    pub control_value: Option<u8>,
    pub program: Option<u8>,
    pub pressure: Option<u8>,
    pub bend: Option<u16>,
    pub is_note: bool,
    pub is_note_on: bool,
    pub is_note_off: bool,
    /// does the message type use data byte 1 / 2
    pub uses_d1: bool,
    pub uses_d2: bool,
}

/// MIDI 1.0 status table. `s >= 0x80`, `d1, d2 <= 127`.
pub fn ref_decode(s: u8, d1: u8, d2: u8) -> Decoded {
    assert!(s >= 0x80 && d1 < 128 && d2 < 128);
    let hi = s >> 4;
    let mut d = Decoded {
        type_byte: if hi == 0xF { s } else { s & 0xF0 },
        channel: if hi == 0xF { None } else { Some(s & 0x0F) },
        super_type: RSuper::ChannelVoice,
        main: if hi == 0xF { RMain::System } else { RMain::Channel },
        key: None,
        velocity: None,
        controller: None,
        control_value: None,
        program: None,
        pressure: None,
        bend: None,
        is_note: false,
        is_note_on: false,
        is_note_off: false,
        uses_d1: false,
        uses_d2: false,
    };
    match hi {
        0x8 => {
            d.key = Some(d1);
            d.velocity = Some(d2);
            d.is_note = true;
            d.is_note_off = true;
            d.uses_d1 = true;
            d.uses_d2 = true;
        }
        0x9 => {
            d.key = Some(d1);
            d.velocity = Some(d2);
            d.is_note = true;
            d.is_note_on = d2 > 0;
            d.is_note_off = d2 == 0;
            d.uses_d1 = true;
            d.uses_d2 = true;
        }
        0xA => {
            d.key = Some(d1);
            d.pressure = Some(d2);
            d.uses_d1 = true;
            d.uses_d2 = true;
        }
        0xB => {
            d.controller = Some(d1);
            d.control_value = Some(d2);
            // MIDI 1.0: controller numbers 120-127 are reserved for Channel Mode messages
            if d1 >= 120 {
                d.super_type = RSuper::ChannelMode;
            }
            d.uses_d1 = true;
            d.uses_d2 = true;
        }
        0xC => {
            d.program = Some(d1);
            d.uses_d1 = true;
        }
        0xD => {
            d.pressure = Some(d1);
            d.uses_d1 = true;
        }
        0xE => {
            d.bend = Some(d2 as u16 * 128 + d1 as u16);
            d.uses_d1 = true;
            d.uses_d2 = true;
        }
        _ => {
            d.super_type = match s {
                0xF0 => RSuper::SystemExclusive,
                0xF1..=0xF7 => RSuper::SystemCommon,
                _ => RSuper::SystemRealTime,
            };
            match s {
                0xF1 | 0xF3 => d.uses_d1 = true,
                0xF2 => {
                    d.uses_d1 = true;
                    d.uses_d2 = true;
                }
                _ => {}
            }
        }
    }
    d
}

/// The triple with its information-free parts zeroed: unused data bytes, and the reserved bit 3
/// of a time-code quarter frame whose piece index (high nibble) is 7.
pub fn ref_canon(s: u8, d1: u8, d2: u8) -> (u8, u8, u8) {
    let d = ref_decode(s, d1, d2);
    let mut c1 = if d.uses_d1 { d1 } else { 0 };
    let c2 = if d.uses_d2 { d2 } else { 0 };
    if s == 0xF1 && (c1 >> 4) == 7 {
        c1 &= !0x08;
    }
    (s, c1, c2)
}

/// Literal table: type byte -> ShortMessageType variant (23 entries).
pub const TYPE_TABLE: [(u8, ShortMessageType); 23] = [
    (0x80, ShortMessageType::NoteOff),
    (0x90, ShortMessageType::NoteOn),
    (0xA0, ShortMessageType::PolyphonicKeyPressure),
    (0xB0, ShortMessageType::ControlChange),
    (0xC0, ShortMessageType::ProgramChange),
    (0xD0, ShortMessageType::ChannelPressure),
    (0xE0, ShortMessageType::PitchBendChange),
    (0xF0, ShortMessageType::SystemExclusiveStart),
    (0xF1, ShortMessageType::TimeCodeQuarterFrame),
    (0xF2, ShortMessageType::SongPositionPointer),
    (0xF3, ShortMessageType::SongSelect),
    (0xF4, ShortMessageType::SystemCommonUndefined1),
    (0xF5, ShortMessageType::SystemCommonUndefined2),
    (0xF6, ShortMessageType::TuneRequest),
    (0xF7, ShortMessageType::SystemExclusiveEnd),
    (0xF8, ShortMessageType::TimingClock),
    (0xF9, ShortMessageType::SystemRealTimeUndefined1),
    (0xFA, ShortMessageType::Start),
    (0xFB, ShortMessageType::Continue),
    (0xFC, ShortMessageType::Stop),
    (0xFD, ShortMessageType::SystemRealTimeUndefined2),
    (0xFE, ShortMessageType::ActiveSensing),
    (0xFF, ShortMessageType::SystemReset),
];

pub fn ref_type(type_byte: u8) -> Option<ShortMessageType> {
    TYPE_TABLE.iter().find(|(b, _)| *b == type_byte).map(|(_, t)| *t)
}

pub fn h_u7(v: u8) -> U7 {
    U7::try_from(v).expect("harness: u7 out of range")
}
pub fn h_u4(v: u8) -> U4 {
    U4::try_from(v).expect("harness: u4 out of range")
}
pub fn h_u14(v: u16) -> U14 {
    U14::try_from(v).expect("harness: u14 out of range")
}
pub fn h_ch(v: u8) -> Channel {
    Channel::try_from(v).expect("harness: channel out of range")
}
pub fn h_key(v: u8) -> KeyNumber {
    KeyNumber::try_from(v).expect("harness: key out of range")
}
pub fn h_cn(v: u8) -> ControllerNumber {
    ControllerNumber::try_from(v).expect("harness: controller number out of range")
}

/// Quarter frame expected for data byte `d1` (0..=127), written from the MTC quarter-frame layout:
/// 0nnn dddd, piece 7 = 0 tt h (bit 3 reserved).
pub fn ref_quarter_frame(d1: u8) -> TimeCodeQuarterFrame {
    let n = d1 & 0x0F;
    match d1 >> 4 {
        0 => TimeCodeQuarterFrame::FrameCountLsNibble(h_u4(n)),
        1 => TimeCodeQuarterFrame::FrameCountMsNibble(h_u4(n)),
        2 => TimeCodeQuarterFrame::SecondsCountLsNibble(h_u4(n)),
        3 => TimeCodeQuarterFrame::SecondsCountMsNibble(h_u4(n)),
        4 => TimeCodeQuarterFrame::MinutesCountLsNibble(h_u4(n)),
        5 => TimeCodeQuarterFrame::MinutesCountMsNibble(h_u4(n)),
        6 => TimeCodeQuarterFrame::HoursCountLsNibble(h_u4(n)),
        _ => TimeCodeQuarterFrame::Last {
            hours_count_ms_bit: n & 1 == 1,
            time_code_type: match (n >> 1) & 3 {
                0 => TimeCodeType::Fps24,
                1 => TimeCodeType::Fps25,
                2 => TimeCodeType::Fps30DropFrame,
                _ => TimeCodeType::Fps30NonDrop,
            },
        },
    }
}

/// Expected structured form of a valid triple, built from the enum's definition.
pub fn ref_structured(s: u8, d1: u8, d2: u8) -> StructuredShortMessage {
    use StructuredShortMessage as S;
    let ch = h_ch(s & 0x0F);
    match s >> 4 {
        0x8 => S::NoteOff { channel: ch, key_number: h_key(d1), velocity: h_u7(d2) },
        0x9 => S::NoteOn { channel: ch, key_number: h_key(d1), velocity: h_u7(d2) },
        0xA => S::PolyphonicKeyPressure { channel: ch, key_number: h_key(d1), pressure_amount: h_u7(d2) },
        0xB => S::ControlChange { channel: ch, controller_number: h_cn(d1), control_value: h_u7(d2) },
        0xC => S::ProgramChange { channel: ch, program_number: h_u7(d1) },
        0xD => S::ChannelPressure { channel: ch, pressure_amount: h_u7(d1) },
        0xE => S::PitchBendChange { channel: ch, pitch_bend_value: h_u14(d2 as u16 * 128 + d1 as u16) },
        _ => match s {
            0xF0 => S::SystemExclusiveStart,
            0xF1 => S::TimeCodeQuarterFrame(ref_quarter_frame(d1)),
            0xF2 => S::SongPositionPointer { position: h_u14(d2 as u16 * 128 + d1 as u16) },
            0xF3 => S::SongSelect { song_number: h_u7(d1) },
            0xF4 => S::SystemCommonUndefined1,
            0xF5 => S::SystemCommonUndefined2,
            0xF6 => S::TuneRequest,
            0xF7 => S::SystemExclusiveEnd,
            0xF8 => S::TimingClock,
            0xF9 => S::SystemRealTimeUndefined1,
            0xFA => S::Start,
            0xFB => S::Continue,
            0xFC => S::Stop,
            0xFD => S::SystemRealTimeUndefined2,
            0xFE => S::ActiveSensing,
            _ => S::SystemReset,
        },
    }
}

// ---------------------------------------------------------------------------------------------
// Reference scanners (history facts, per channel)
// ---------------------------------------------------------------------------------------------

/// C08: "most recent Control Change with a controller number below 32 fed on channel c since
/// creation or reset".
#[derive(Clone, Copy, PartialEq, Eq, Hash, Debug, Default)]
pub struct RefCc14 {
    pub last_msb: [Option<(u8, u8)>; 16],
}

/// expected report: (channel, msb controller, 14-bit value)
pub type Cc14Report = (u8, u8, u16);

impl RefCc14 {
    pub fn reset(&mut self) {
        *self = RefCc14::default();
    }
    pub fn feed(&mut self, s: u8, d1: u8, d2: u8) -> Option<Cc14Report> {
        if s >> 4 != 0xB {
            return None;
        }
        let c = (s & 0x0F) as usize;
        if d1 < 32 {
            self.last_msb[c] = Some((d1, d2));
            None
        } else if d1 < 64 {
            match self.last_msb[c] {
                Some((n0, v0)) if n0 == d1 - 32 => Some((c as u8, n0, 128 * v0 as u16 + d2 as u16)),
                _ => None,
            }
        } else {
            None
        }
    }
}

/// expected (N)RPN report in plain integers
#[derive(Clone, Copy, PartialEq, Eq, Hash, Debug)]
pub struct PnReport {
    pub channel: u8,
    pub number: u16,
    pub value: u16,
    pub registered: bool,
    pub is_14_bit: bool,
    /// 0 = data entry, 1 = increment, 2 = decrement
    pub kind: u8,
}

/// C11: per channel since creation/reset: latest number MSB (99/101), latest number LSB (98/100),
/// kind of the most recent number byte, latest CC 38 value received after the most recent number
/// byte.
#[derive(Clone, Copy, PartialEq, Eq, Hash, Debug, Default)]
pub struct RefNrpnCh {
    pub m: Option<u8>,
    pub l: Option<u8>,
    pub registered: bool,
    pub v38: Option<u8>,
}

#[derive(Clone, Copy, PartialEq, Eq, Hash, Debug, Default)]
pub struct RefNrpn {
    pub ch: [RefNrpnCh; 16],
}

impl RefNrpn {
    pub fn reset(&mut self) {
        *self = RefNrpn::default();
    }
    pub fn feed(&mut self, s: u8, d1: u8, d2: u8) -> Option<PnReport> {
        if s >> 4 != 0xB {
            return None;
        }
        let c = (s & 0x0F) as usize;
        let st = &mut self.ch[c];
        match d1 {
            99 | 101 => {
                st.m = Some(d2);
                st.registered = d1 == 101;
                st.v38 = None;
                None
            }
            98 | 100 => {
                st.l = Some(d2);
                st.registered = d1 == 100;
                st.v38 = None;
                None
            }
            38 => {
                st.v38 = Some(d2);
                None
            }
            6 | 96 | 97 => {
                let (m, l) = match (st.m, st.l) {
                    (Some(m), Some(l)) => (m, l),
                    _ => return None,
                };
                let number = 128 * m as u16 + l as u16;
                if d1 == 6 {
                    match st.v38 {
                        Some(v38) => Some(PnReport {
                            channel: c as u8,
                            number,
                            value: 128 * d2 as u16 + v38 as u16,
                            registered: st.registered,
                            is_14_bit: true,
                            kind: 0,
                        }),
                        None => Some(PnReport {
                            channel: c as u8,
                            number,
                            value: d2 as u16,
                            registered: st.registered,
                            is_14_bit: false,
                            kind: 0,
                        }),
                    }
                } else {
                    Some(PnReport {
                        channel: c as u8,
                        number,
                        value: d2 as u16,
                        registered: st.registered,
                        is_14_bit: false,
                        kind: if d1 == 96 { 1 } else { 2 },
                    })
                }
            }
            _ => None,
        }
    }
}

/// Observes a ParameterNumberMessage through its public accessors only.
pub fn observe_pn(m: &helgoboss_midi::ParameterNumberMessage) -> PnReport {
    use helgoboss_midi::DataType;
    PnReport {
        channel: m.channel().get(),
        number: m.number().get(),
        value: m.value().get(),
        registered: m.is_registered(),
        is_14_bit: m.is_14_bit(),
        kind: match m.data_type() {
            DataType::DataEntry => 0,
            DataType::DataIncrement => 1,
            DataType::DataDecrement => 2,
        },
    }
}

/// Builds the message a PnReport describes through the public constructors.
pub fn build_pn(r: &PnReport) -> helgoboss_midi::ParameterNumberMessage {
    use helgoboss_midi::ParameterNumberMessage as P;
    let ch = h_ch(r.channel);
    let n = h_u14(r.number);
    match (r.registered, r.is_14_bit, r.kind) {
        (false, true, _) => P::non_registered_14_bit(ch, n, h_u14(r.value)),
        (true, true, _) => P::registered_14_bit(ch, n, h_u14(r.value)),
        (false, false, 0) => P::non_registered_7_bit(ch, n, h_u7(r.value as u8)),
        (true, false, 0) => P::registered_7_bit(ch, n, h_u7(r.value as u8)),
        (false, false, 1) => P::non_registered_increment(ch, n, h_u7(r.value as u8)),
        (true, false, 1) => P::registered_increment(ch, n, h_u7(r.value as u8)),
        (false, false, _) => P::non_registered_decrement(ch, n, h_u7(r.value as u8)),
        (true, false, _) => P::registered_decrement(ch, n, h_u7(r.value as u8)),
    }
}

pub fn observe_cc14(m: &helgoboss_midi::ControlChange14BitMessage) -> Cc14Report {
    (m.channel().get(), m.msb_controller_number().get(), m.value().get())
}

/// A message *reported by a scanner* must encode like a constructor-built one: the array
/// conversion is MSB first, `to_short_messages` honours the requested order (C09 on scanner output).
pub fn reencode_pn(m: &helgoboss_midi::ParameterNumberMessage) -> Result<(), crate::engine::Fail> {
    use crate::engine::api;
    use helgoboss_midi::{DataEntryByteOrder, RawShortMessage, ShortMessage};
    let r = observe_pn(m);
    let built = build_pn(&r);
    let bytes = |a: &[Option<RawShortMessage>; 4]| -> [Option<(u8, u8, u8)>; 4] {
        let mut o = [None; 4];
        for (i, x) in a.iter().enumerate() {
            o[i] = x.as_ref().map(|x| {
                let b = x.to_bytes();
                (b.0, b.1.get(), b.2.get())
            });
        }
        o
    };
    let into_arr: [Option<RawShortMessage>; 4] = api(|| (*m).into());
    let want_arr: [Option<RawShortMessage>; 4] = built.into();
    if bytes(&into_arr) != bytes(&want_arr) {
        return Err(crate::engine::Fail { sig: "report/array_conversion_differs_from_constructed_message".into(), detail: format!("{:?}: Into<[Option<T>;4]> = {:?}, a constructor-built equal message gives {:?}", r, bytes(&into_arr), bytes(&want_arr)) });
    }
    for order in [DataEntryByteOrder::MsbFirst, DataEntryByteOrder::LsbFirst] {
        let a: [Option<RawShortMessage>; 4] = api(|| m.to_short_messages(order));
        let w: [Option<RawShortMessage>; 4] = built.to_short_messages(order);
        if bytes(&a) != bytes(&w) {
            return Err(crate::engine::Fail { sig: "report/encoding_differs_from_constructed_message".into(), detail: format!("{:?} ({:?}): {:?} vs {:?}", r, order, bytes(&a), bytes(&w)) });
        }
    }
    Ok(())
}

pub fn reencode_cc14(m: &helgoboss_midi::ControlChange14BitMessage) -> Result<(), crate::engine::Fail> {
    use crate::engine::api;
    use helgoboss_midi::{RawShortMessage, ShortMessage};
    let (c, n, v) = observe_cc14(m);
    let a: [RawShortMessage; 2] = api(|| (*m).into());
    let b: [RawShortMessage; 2] = api(|| m.to_short_messages());
    let want = [(0xB0 | c, n, (v >> 7) as u8), (0xB0 | c, n + 32, (v & 127) as u8)];
    let by = |x: &RawShortMessage| {
        let t = x.to_bytes();
        (t.0, t.1.get(), t.2.get())
    };
    if [by(&a[0]), by(&a[1])] != want || [by(&b[0]), by(&b[1])] != want {
        return Err(crate::engine::Fail { sig: "report/encoding_differs_from_constructed_message".into(), detail: format!("{:?} encodes to {:?} / {:?}, expected {:?}", m, a, b, want) });
    }
    Ok(())
}
