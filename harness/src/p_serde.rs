//! C19: deserialization enforces the same invariants as the constructors (features serde + serde_repr).
use crate::engine::*;
use crate::ensure;
use crate::p_ints::Nt;
use crate::p_short::{frame_by_index, structured_by_index, N_STRUCTURED};
use crate::refmodel::*;
use helgoboss_midi::{
    Channel, ControlChange14BitMessage, ControllerNumber, DataEntryByteOrder, DataType, KeyNumber, ParameterNumberMessage,
    RawShortMessage, ShortMessage, ShortMessageFactory, ShortMessageType, StructuredShortMessage, TimeCodeQuarterFrame, TimeCodeType, U14, U4, U7,
};
use proptest::prelude::*;
use serde::de::value::Error as VErr;
use serde::de::{DeserializeOwned, IntoDeserializer};
use serde::{Deserialize, Serialize};
use serde_json::{json, Value};

// ---------------------------------------------------------------------------------------------
// Validity of deserialized values ("could have been built through the checked constructors")
// ---------------------------------------------------------------------------------------------

pub trait Valid: Sized + std::fmt::Debug + PartialEq {
    const TYPE: &'static str;
    fn valid(&self) -> Result<(), Fail>;
}

macro_rules! valid_int {
    ($t:ident) => {
        impl Valid for $t {
            const TYPE: &'static str = stringify!($t);
            fn valid(&self) -> Result<(), Fail> {
                ensure!(self.getw() <= <$t as Nt>::MAXV, format!("{}/out_of_range_value_accepted", stringify!($t)), "deserialized {:?}", self);
                Ok(())
            }
        }
    };
}
valid_int!(U4);
valid_int!(U7);
valid_int!(U14);
valid_int!(Channel);
valid_int!(KeyNumber);
valid_int!(ControllerNumber);

impl Valid for ShortMessageType {
    const TYPE: &'static str = "ShortMessageType";
    fn valid(&self) -> Result<(), Fail> {
        ensure!(ref_type(u8::from(*self)) == Some(*self), "ShortMessageType/not_a_type", "{:?}", self);
        Ok(())
    }
}
impl Valid for TimeCodeType {
    const TYPE: &'static str = "TimeCodeType";
    fn valid(&self) -> Result<(), Fail> {
        ensure!(u8::from(*self) <= 3, "TimeCodeType/out_of_range", "{:?}", self);
        Ok(())
    }
}
impl Valid for DataType {
    const TYPE: &'static str = "DataType";
    fn valid(&self) -> Result<(), Fail> {
        Ok(())
    }
}
impl Valid for TimeCodeQuarterFrame {
    const TYPE: &'static str = "TimeCodeQuarterFrame";
    fn valid(&self) -> Result<(), Fail> {
        let b: U7 = api(|| (*self).into());
        ensure!(b.get() <= 127, "TimeCodeQuarterFrame/out_of_range_byte", "{:?} -> {:?}", self, b);
        let back: TimeCodeQuarterFrame = api(|| b.into());
        ensure!(back == *self, "TimeCodeQuarterFrame/not_constructible", "{:?} encodes to {:?} which decodes to {:?}", self, b, back);
        Ok(())
    }
}
impl Valid for RawShortMessage {
    const TYPE: &'static str = "RawShortMessage";
    fn valid(&self) -> Result<(), Fail> {
        let b = api(|| self.to_bytes());
        ensure!(b.1.get() <= 127 && b.2.get() <= 127, "RawShortMessage/data_byte_out_of_range", "{:?}", self);
        ensure!(b.0 >= 0x80, "RawShortMessage/invalid_status_byte_accepted", "deserialized {:?} (status byte {:#04x} < 0x80)", self, b.0);
        let r = api(|| RawShortMessage::from_bytes(b));
        ensure!(r.as_ref().ok() == Some(self), "RawShortMessage/not_constructible", "{:?} vs from_bytes {:?}", self, r);
        let _ = api(|| self.r#type());
        let _ = api(|| self.to_structured());
        Ok(())
    }
}
impl Valid for StructuredShortMessage {
    const TYPE: &'static str = "StructuredShortMessage";
    fn valid(&self) -> Result<(), Fail> {
        let b = api(|| self.to_bytes());
        ensure!(b.0 >= 0x80 && b.1.get() <= 127 && b.2.get() <= 127, "StructuredShortMessage/bytes_out_of_range", "{:?} -> {:?}", self, b);
        let r = api(|| StructuredShortMessage::from_bytes(b));
        ensure!(r.as_ref().ok() == Some(self), "StructuredShortMessage/not_constructible", "{:?} vs from_bytes(to_bytes) {:?}", self, r);
        if let Some(c) = api(|| self.channel()) {
            ensure!(c.get() <= 15, "StructuredShortMessage/channel_out_of_range", "{:?}", self);
        }
        Ok(())
    }
}
impl Valid for ControlChange14BitMessage {
    const TYPE: &'static str = "ControlChange14BitMessage";
    fn valid(&self) -> Result<(), Fail> {
        let (c, n, v) = observe_cc14(self);
        ensure!(c <= 15 && n <= 127 && v <= 16383, "ControlChange14BitMessage/field_out_of_range", "{:?}", self);
        ensure!(n <= 31, "ControlChange14BitMessage/invalid_msb_controller_accepted", "deserialized {:?} (MSB controller number {} > 31)", self, n);
        let built = api(|| ControlChange14BitMessage::new(h_ch(c), h_cn(n), h_u14(v)));
        ensure!(built == *self, "ControlChange14BitMessage/not_constructible", "{:?} vs {:?}", self, built);
        let lsb = api(|| self.lsb_controller_number()).get();
        ensure!(lsb == n + 32, "ControlChange14BitMessage/lsb_controller_is_not_msb_plus_32", "deserialized {:?}: LSB controller {} for MSB controller {}", self, lsb, n);
        let m: [RawShortMessage; 2] = api(|| self.to_short_messages());
        let b1 = m[1].to_bytes();
        ensure!(b1.1.get() == n + 32, "ControlChange14BitMessage/encodes_with_wrong_lsb_controller", "{:?} encodes its LSB on controller {}", self, b1.1.get());
        for x in m.iter() {
            x.valid()?;
        }
        Ok(())
    }
}
impl Valid for ParameterNumberMessage {
    const TYPE: &'static str = "ParameterNumberMessage";
    fn valid(&self) -> Result<(), Fail> {
        let r = observe_pn(self);
        ensure!(r.channel <= 15 && r.number <= 16383 && r.value <= 16383, "ParameterNumberMessage/field_out_of_range", "{:?}", self);
        ensure!(r.is_14_bit || r.value <= 127, "ParameterNumberMessage/seven_bit_message_with_value_over_127_accepted", "deserialized {:?}", r);
        ensure!(!r.is_14_bit || r.kind == 0, "ParameterNumberMessage/fourteen_bit_non_data_entry_accepted", "deserialized {:?}", r);
        ensure!(build_pn(&r) == *self, "ParameterNumberMessage/not_constructible", "{:?} vs {:?}", self, build_pn(&r));
        for order in [DataEntryByteOrder::MsbFirst, DataEntryByteOrder::LsbFirst] {
            let m: [Option<RawShortMessage>; 4] = api(|| self.to_short_messages(order));
            for x in m.iter().flatten() {
                x.valid()?;
            }
        }
        Ok(())
    }
}

// compile-time probe: is ShortMessageType deserializable in this feature configuration? (it is with
// serde_repr; with `serde` alone it is not - unless a later version adds an impl, which is then checked)
trait ProbeDeYes<T> {
    fn de_value(&self, v: &Value) -> Option<Option<T>>;
    fn de_u8(&self, b: u8) -> Option<Option<T>>;
}
impl<T: DeserializeOwned> ProbeDeYes<T> for crate::impls::Probe<T> {
    fn de_value(&self, v: &Value) -> Option<Option<T>> {
        Some(serde_json::from_value::<T>(v.clone()).ok())
    }
    fn de_u8(&self, b: u8) -> Option<Option<T>> {
        let d: <u8 as IntoDeserializer<VErr>>::Deserializer = b.into_deserializer();
        Some(T::deserialize(d).ok())
    }
}
trait ProbeDeNo<T> {
    fn de_value(&self, _v: &Value) -> Option<Option<T>> {
        None
    }
    fn de_u8(&self, _b: u8) -> Option<Option<T>> {
        None
    }
}
impl<T> ProbeDeNo<T> for &crate::impls::Probe<T> {}

// ---------------------------------------------------------------------------------------------
// Feeding inputs
// ---------------------------------------------------------------------------------------------

/// deserializes T from a serde_json::Value (generic self-describing value deserializer) and from
/// its JSON text; both must agree on acceptance; an accepted value must be valid.
fn check_value<T: Valid + DeserializeOwned>(v: &Value) -> Result<Option<T>, Fail> {
    let a: Result<T, _> = serde_json::from_value(v.clone());
    let text = v.to_string();
    let b: Result<T, _> = serde_json::from_str(&text);
    if let Ok(x) = &a {
        x.valid()?;
    }
    if let Ok(x) = &b {
        x.valid()?;
    }
    // the same tree through a format that is not human readable
    check_binary::<T>(v)?;
    Ok(a.ok().or(b.ok()))
}

fn check_text<T: Valid + DeserializeOwned>(text: &str) -> Result<Option<T>, Fail> {
    let b: Result<T, _> = serde_json::from_str(text);
    if let Ok(x) = &b {
        x.valid()?;
    }
    Ok(b.ok())
}

fn roundtrip<T: Valid + DeserializeOwned + Serialize>(x: &T) -> Result<(), Fail> {
    let v = serde_json::to_value(x).map_err(|e| Fail { sig: format!("{}/serialize_failed", T::TYPE), detail: e.to_string() })?;
    let back: Result<T, _> = serde_json::from_value(v.clone());
    ensure!(back.as_ref().ok() == Some(x), format!("{}/roundtrip_value", T::TYPE), "{:?} -> {} -> {:?}", x, v, back.map_err(|e| e.to_string()));
    let s = serde_json::to_string(x).map_err(|e| Fail { sig: format!("{}/serialize_failed", T::TYPE), detail: e.to_string() })?;
    let back: Result<T, _> = serde_json::from_str(&s);
    ensure!(back.as_ref().ok() == Some(x), format!("{}/roundtrip_json_text", T::TYPE), "{:?} -> {} -> {:?}", x, s, back.map_err(|e| e.to_string()));
    Ok(())
}

fn rt_json<T: Valid + Serialize>(x: &T) -> Value {
    json!({"kind": "roundtrip", "type": T::TYPE, "json": serde_json::to_value(x).unwrap_or(Value::Null), "debug": format!("{:?}", x)})
}

fn replay_roundtrip<T: Valid + DeserializeOwned + Serialize>(v: &Value) -> CheckResult {
    match serde_json::from_value::<T>(v.clone()) {
        Ok(x) => roundtrip(&x).map(|_| true),
        Err(e) => fail(format!("{}/roundtrip_value", T::TYPE), format!("natural representation {} does not deserialize: {}", v, e)),
    }
}

// --- integers --------------------------------------------------------------------------------

fn int_typed<N: Nt + Valid + DeserializeOwned>(src: &str, x: i128) -> CheckResult {
    // serde's own primitive value deserializers (typed visits)
    macro_rules! via {
        ($t:ty) => {{
            match <$t>::try_from(x) {
                Ok(p) => {
                    let d: <$t as IntoDeserializer<VErr>>::Deserializer = p.into_deserializer();
                    Some(N::deserialize(d).ok())
                }
                Err(_) => None,
            }
        }};
    }
    let r: Option<Option<N>> = match src {
        "u8" => via!(u8),
        "i8" => via!(i8),
        "u16" => via!(u16),
        "i16" => via!(i16),
        "u32" => via!(u32),
        "i32" => via!(i32),
        "u64" => via!(u64),
        "i64" => via!(i64),
        _ => None,
    };
    let r = match r {
        Some(r) => r,
        None => return Ok(false),
    };
    let in_range = x >= 0 && (x as u128) <= N::MAXV;
    if let Some(v) = r {
        v.valid()?;
        ensure!(in_range && v.getw() == x as u128, format!("{}/wrong_value_from_{}", N::NAME, src), "{} {} deserialized to {:?}", src, x, v);
    }
    Ok(!in_range)
}


/// non-integer typed carriers (serde's own value deserializers): strings, chars, floats, bools,
/// bytes, unit. Whatever is accepted must be in range.
fn int_other_carriers<N: Nt + Valid + DeserializeOwned>(k: usize) -> CheckResult {
    use serde::de::value::{BoolDeserializer, BytesDeserializer, CharDeserializer, F32Deserializer, F64Deserializer, StrDeserializer, StringDeserializer, UnitDeserializer};
    let strings = ["0", "1", "15", "16", "127", "128", "200", "255", "256", "16383", "16384", "65535", "65536", "-1", "+5", "", " 7", "1e2", "0x10", "99999999999"];
    let r: Option<N> = match k {
        0..=19 => N::deserialize(StrDeserializer::<VErr>::new(strings[k])).ok(),
        20..=39 => N::deserialize(StringDeserializer::<VErr>::new(strings[k - 20].to_string())).ok(),
        40..=59 => N::deserialize(BytesDeserializer::<VErr>::new(strings[k - 40].as_bytes())).ok(),
        60 => N::deserialize(BoolDeserializer::<VErr>::new(true)).ok(),
        61 => N::deserialize(BoolDeserializer::<VErr>::new(false)).ok(),
        62 => N::deserialize(CharDeserializer::<VErr>::new('7')).ok(),
        63 => N::deserialize(CharDeserializer::<VErr>::new('\u{ff}')).ok(),
        64 => N::deserialize(F64Deserializer::<VErr>::new(200.0)).ok(),
        65 => N::deserialize(F64Deserializer::<VErr>::new(70000.0)).ok(),
        66 => N::deserialize(F64Deserializer::<VErr>::new(-1.0)).ok(),
        67 => N::deserialize(F32Deserializer::<VErr>::new(16384.0)).ok(),
        68 => N::deserialize(F64Deserializer::<VErr>::new(5.0)).ok(),
        _ => N::deserialize(UnitDeserializer::<VErr>::new()).ok(),
    };
    if let Some(v) = r {
        v.valid().map_err(|f| Fail { sig: format!("{}/non_integer_carrier", f.sig), detail: format!("carrier #{}: {}", k, f.detail) })?;
    }
    Ok(true)
}

fn int_json<N: Nt + Valid + DeserializeOwned + Serialize>(v: &Value) -> CheckResult {
    let r = check_value::<N>(v)?;
    let num = json_int(v).filter(|_| v.is_number() && !v.is_f64());
    let in_range = num.map_or(false, |x| x >= 0 && (x as u128) <= N::MAXV);
    match (num, r) {
        // an integer input: accepted exactly if in range, and then with that value
        (Some(n), Some(x)) => ensure!(in_range && x.getw() as i128 == n, format!("{}/wrong_value_from_json", N::NAME), "{} deserialized to {:?}", v, x),
        (Some(_), None) => ensure!(!in_range, format!("{}/natural_representation_rejected", N::NAME), "{} was rejected", v),
        // any other input (float, string, ...): the statement only demands a valid result (checked by check_value)
        _ => {}
    }
    Ok(v.is_number() && !in_range)
}

fn odd_scalars() -> Vec<Value> {
    vec![
        json!(null), json!(true), json!(false), json!("0"), json!("1"), json!("127"), json!(""), json!(0.0), json!(1.0), json!(1.5), json!(-0.0), json!(127.0), json!(1e3),
        json!(-1), json!(-128), json!(-32768), json!(i64::MIN), json!(u64::MAX), json!([]), json!([1]), json!({}), json!({"0": 1}), json!([0, 0]),
    ]
}

const BOUNDS: [i64; 22] = [0, 1, 2, 15, 16, 31, 32, 63, 64, 119, 120, 127, 128, 255, 256, 16383, 16384, 32767, 32768, 65535, 65536, 4294967296];

fn run_ints_for<N: Nt + Valid + DeserializeOwned + Serialize>(ctx: &Ctx, subs: &mut Vec<Sub>) {
    let mut sub = Sub::new(
        &format!("int_{}", N::NAME),
        &format!("{}: every u16/u8/i8/i16 and boundary 32/64-bit values through serde's typed primitive deserializers; every u16 and odd scalars through the generic JSON value deserializer and JSON text; round trip of every valid value", N::NAME),
        "non-trivial = numeric input outside the type's range",
        true,
    );
    let st = ctx.pick(7i128, 1, 1);
    for (src, lo, hi) in [("u8", 0i128, 255i128), ("i8", -128, 127), ("u16", 0, 65535), ("i16", -32768, 32767)] {
        let mut x = lo;
        while x <= hi {
            sub.eval(x.unsigned_abs(), || json!({"kind": "int_typed", "type": N::NAME, "source": src, "value": x as i64}), || int_typed::<N>(src, x));
            x += st;
        }
    }
    for src in ["u32", "i32", "u64", "i64"] {
        for b in BOUNDS.iter().map(|b| *b as i128).chain([-1i128, -129, -65536, i32::MAX as i128, i32::MIN as i128, u32::MAX as i128, i64::MAX as i128, i64::MIN as i128, u64::MAX as i128]) {
            sub.eval(b.unsigned_abs(), || json!({"kind": "int_typed", "type": N::NAME, "source": src, "value": int_json_val(b)}), || int_typed::<N>(src, b));
        }
    }
    let mut x = 0i128;
    while x <= 65536 {
        let v = json!(x as i64);
        sub.eval(x as u128, || json!({"kind": "int_json", "type": N::NAME, "input": v}), || int_json::<N>(&v));
        x += st;
    }
    for v in odd_scalars() {
        sub.eval(1 << 40, || json!({"kind": "int_json", "type": N::NAME, "input": v}), || int_json::<N>(&v));
    }
    for k in 0..70usize {
        sub.eval(1 << 41, || json!({"kind": "int_other_carrier", "type": N::NAME, "carrier": k}), || int_other_carriers::<N>(k));
    }
    let mut x = -300i128;
    while x <= 65536 {
        sub.eval(x.unsigned_abs(), || json!({"kind": "int_in_place", "type": N::NAME, "value": x as i64}), || check_in_place::<N>(x));
        let v = json!(x as i64);
        sub.eval(x.unsigned_abs(), || json!({"kind": "binary", "type": N::NAME, "input": v}), || check_binary::<N>(&v).map(|_| true));
        x += if x < 300 || (16000..16700).contains(&x) { 1 } else { 97 * st };
    }
    for val in 0..=N::MAXV {
        let n = N::new_repr(val);
        sub.eval(val, || rt_json(&n), || {
            roundtrip(&n)?;
            Ok(false)
        });
    }
    sub.samples.push(json!({"kind": "int_typed", "type": N::NAME, "source": "u16", "value": N::MAXV as u64 + 1}));
    sub.samples.push(json!({"kind": "int_json", "type": N::NAME, "input": 65535}));
    subs.push(sub);
}

fn int_json_val(b: i128) -> Value {
    crate::engine::int_json(b)
}


// ---------------------------------------------------------------------------------------------
// A non-human-readable deserializer over a JSON value tree (formats like bincode / postcard report
// `is_human_readable() == false`; impls may branch on it), and `deserialize_in_place`.
// ---------------------------------------------------------------------------------------------

pub struct Bin<'a>(pub &'a Value);

impl<'de, 'a> serde::Deserializer<'de> for Bin<'a> {
    type Error = VErr;
    fn is_human_readable(&self) -> bool {
        false
    }
    fn deserialize_any<V: serde::de::Visitor<'de>>(self, visitor: V) -> Result<V::Value, VErr> {
        use serde::de::value::{MapDeserializer, SeqDeserializer};
        match self.0 {
            Value::Null => visitor.visit_unit(),
            Value::Bool(b) => visitor.visit_bool(*b),
            Value::Number(n) => {
                if let Some(u) = n.as_u64() {
                    visitor.visit_u64(u)
                } else if let Some(i) = n.as_i64() {
                    visitor.visit_i64(i)
                } else {
                    visitor.visit_f64(n.as_f64().unwrap_or(0.0))
                }
            }
            Value::String(s) => visitor.visit_str(s),
            Value::Array(a) => visitor.visit_seq(SeqDeserializer::new(a.iter().map(BinInto))),
            Value::Object(m) => visitor.visit_map(MapDeserializer::new(m.iter().map(|(k, v)| (k.as_str(), BinInto(v))))),
        }
    }
    fn deserialize_option<V: serde::de::Visitor<'de>>(self, visitor: V) -> Result<V::Value, VErr> {
        if self.0.is_null() {
            visitor.visit_none()
        } else {
            visitor.visit_some(self)
        }
    }
    fn deserialize_newtype_struct<V: serde::de::Visitor<'de>>(self, _name: &'static str, visitor: V) -> Result<V::Value, VErr> {
        visitor.visit_newtype_struct(self)
    }
    fn deserialize_enum<V: serde::de::Visitor<'de>>(self, _name: &'static str, _variants: &'static [&'static str], visitor: V) -> Result<V::Value, VErr> {
        use serde::de::value::MapAccessDeserializer;
        use serde::de::IntoDeserializer as _;
        match self.0 {
            Value::String(s) => visitor.visit_enum(s.as_str().into_deserializer()),
            Value::Number(n) if n.as_u64().is_some() => visitor.visit_enum((n.as_u64().unwrap() as u32).into_deserializer()),
            Value::Object(m) if m.len() == 1 => {
                let md = serde::de::value::MapDeserializer::new(m.iter().map(|(k, v)| (k.as_str(), BinInto(v))));
                visitor.visit_enum(MapAccessDeserializer::new(md))
            }
            _ => Err(serde::de::Error::custom("not an enum representation")),
        }
    }
    serde::forward_to_deserialize_any! {
        bool i8 i16 i32 i64 i128 u8 u16 u32 u64 u128 f32 f64 char str string bytes byte_buf unit unit_struct seq tuple tuple_struct map struct identifier ignored_any
    }
}

#[derive(Clone, Copy)]
pub struct BinInto<'a>(pub &'a Value);
impl<'de, 'a> IntoDeserializer<'de, VErr> for BinInto<'a> {
    type Deserializer = Bin<'a>;
    fn into_deserializer(self) -> Bin<'a> {
        Bin(self.0)
    }
}

/// whatever a non-human-readable format yields must be valid as well
fn check_binary<T: Valid + DeserializeOwned>(v: &Value) -> Result<bool, Fail> {
    match T::deserialize(Bin(v)) {
        Ok(x) => {
            x.valid().map_err(|f| Fail { sig: format!("{}/non_human_readable_format", f.sig), detail: format!("input {} through a deserializer with is_human_readable() == false: {}", v, f.detail) })?;
            Ok(true)
        }
        Err(_) => Ok(false),
    }
}

/// `Deserialize::deserialize_in_place` must enforce the same invariants (or leave a valid value)
fn check_in_place<N: Nt + Valid + DeserializeOwned>(x: i128) -> CheckResult {
    let mut place = N::new_repr(1);
    let r = match u16::try_from(x) {
        Ok(p) => {
            let d: <u16 as IntoDeserializer<VErr>>::Deserializer = p.into_deserializer();
            serde::Deserialize::deserialize_in_place(d, &mut place)
        }
        Err(_) => {
            let d: <i64 as IntoDeserializer<VErr>>::Deserializer = (x as i64).into_deserializer();
            serde::Deserialize::deserialize_in_place(d, &mut place)
        }
    };
    place.valid().map_err(|f| Fail { sig: format!("{}/deserialize_in_place", f.sig), detail: format!("deserialize_in_place({}) left {:?} (result {:?})", x, place, r.is_ok()) })?;
    let in_range = x >= 0 && (x as u128) <= N::MAXV;
    ensure!(r.is_ok() == in_range, format!("{}/deserialize_in_place_acceptance", N::NAME), "deserialize_in_place({}) is_ok={}", x, r.is_ok());
    if r.is_ok() {
        ensure!(place.getw() as i128 == x, format!("{}/deserialize_in_place_value", N::NAME), "deserialize_in_place({}) stored {:?}", x, place);
    }
    Ok(!in_range)
}

// --- enums ------------------------------------------------------------------------------------

fn enum_inputs(names: &[&str]) -> Vec<Value> {
    let mut v = Vec::new();
    for n in names {
        v.push(json!(n));
        v.push(json!({*n: null}));
        v.push(json!({*n: 0}));
        v.push(json!({*n: []}));
        v.push(json!(n.to_lowercase()));
    }
    for i in 0..8 {
        v.push(json!(i));
        v.push(json!({i.to_string(): null}));
    }
    v.extend(odd_scalars());
    v.push(json!("Nope"));
    v
}

// --- composite types --------------------------------------------------------------------------

fn field_values() -> Vec<Value> {
    let mut v: Vec<Value> = [0i64, 1, 15, 16, 31, 32, 63, 64, 127, 128, 255, 256, 16383, 16384, 65535, 65536].iter().map(|x| json!(x)).collect();
    v.push(json!(-1));
    v
}

fn raw_case(fields: &[Value]) -> CheckResult {
    let v = Value::Array(fields.to_vec());
    let r = check_value::<RawShortMessage>(&v)?;
    if let Some(m) = r {
        let b = m.to_bytes();
        let want = [json!(b.0), json!(b.1.get()), json!(b.2.get())];
        // (only integer inputs have a "natural" value to compare with)
        if fields.iter().all(|f| f.is_i64() || f.is_u64()) {
            ensure!(fields == want, "RawShortMessage/wrong_value", "{} deserialized to {:?}", v, m);
        }
    }
    let nums: Vec<Option<i128>> = fields.iter().map(json_int).collect();
    let shape_ok = fields.len() == 3 && nums.iter().all(|n| n.is_some());
    let all_valid = shape_ok && nums[0].map_or(false, |s| (0x80..=0xFF).contains(&s)) && nums[1].map_or(false, |d| (0..128).contains(&d)) && nums[2].map_or(false, |d| (0..128).contains(&d));
    Ok(shape_ok && !all_valid)
}

fn cc14_case(ch: &Value, cn: &Value, val: &Value, form: u8) -> CheckResult {
    let v = match form {
        0 => json!({"channel": ch, "msb_controller_number": cn, "value": val}),
        1 => json!([ch, cn, val]),
        2 => json!({"value": val, "msb_controller_number": cn, "channel": ch, "extra": 1}),
        _ => json!({"channel": ch, "msb_controller_number": cn}),
    };
    let r = check_value::<ControlChange14BitMessage>(&v)?;
    if let Some(m) = r {
        let o = observe_cc14(&m);
        ensure!(json_int(ch) == Some(o.0 as i128) && json_int(cn) == Some(o.1 as i128) && json_int(val) == Some(o.2 as i128), "ControlChange14BitMessage/wrong_value", "{} deserialized to {:?}", v, m);
    }
    let ok = |x: &Value, max: i128| json_int(x).map_or(false, |n| (0..=max).contains(&n));
    let all_valid = ok(ch, 15) && ok(cn, 31) && ok(val, 16383);
    Ok(form < 3 && !all_valid)
}

fn pn_case(ch: &Value, number: &Value, val: &Value, reg: bool, is14: bool, dt: &str, form: u8) -> CheckResult {
    let v = match form {
        0 => json!({"channel": ch, "number": number, "value": val, "is_registered": reg, "is_14_bit": is14, "data_type": dt}),
        1 => json!([ch, number, val, reg, is14, dt]),
        _ => json!({"data_type": dt, "is_14_bit": is14, "is_registered": reg, "value": val, "number": number, "channel": ch}),
    };
    let r = check_value::<ParameterNumberMessage>(&v)?;
    if let Some(m) = r {
        let o = observe_pn(&m);
        let kind = ["DataEntry", "DataIncrement", "DataDecrement"].iter().position(|k| *k == dt);
        ensure!(
            json_int(ch) == Some(o.channel as i128) && json_int(number) == Some(o.number as i128) && json_int(val) == Some(o.value as i128) && o.registered == reg && o.is_14_bit == is14 && kind == Some(o.kind as usize),
            "ParameterNumberMessage/wrong_value", "{} deserialized to {:?}", v, o
        );
    }
    let ok = |x: &Value, max: i128| json_int(x).map_or(false, |n| (0..=max).contains(&n));
    let consistent = ok(ch, 15) && ok(number, 16383) && ok(val, if is14 { 16383 } else { 127 }) && (!is14 || dt == "DataEntry") && ["DataEntry", "DataIncrement", "DataDecrement"].contains(&dt);
    Ok(!consistent)
}

const STRUCT_VARIANTS: [(&str, &[&str]); 23] = [
    ("NoteOff", &["channel", "key_number", "velocity"]),
    ("NoteOn", &["channel", "key_number", "velocity"]),
    ("PolyphonicKeyPressure", &["channel", "key_number", "pressure_amount"]),
    ("ControlChange", &["channel", "controller_number", "control_value"]),
    ("ProgramChange", &["channel", "program_number"]),
    ("ChannelPressure", &["channel", "pressure_amount"]),
    ("PitchBendChange", &["channel", "pitch_bend_value"]),
    ("SystemExclusiveStart", &[]),
    ("TimeCodeQuarterFrame", &["<newtype>"]),
    ("SongPositionPointer", &["position"]),
    ("SongSelect", &["song_number"]),
    ("TuneRequest", &[]),
    ("SystemExclusiveEnd", &[]),
    ("TimingClock", &[]),
    ("Start", &[]),
    ("Continue", &[]),
    ("Stop", &[]),
    ("ActiveSensing", &[]),
    ("SystemReset", &[]),
    ("SystemCommonUndefined1", &[]),
    ("SystemCommonUndefined2", &[]),
    ("SystemRealTimeUndefined1", &[]),
    ("SystemRealTimeUndefined2", &[]),
];

const FRAME_VARIANTS: [&str; 8] = ["FrameCountLsNibble", "FrameCountMsNibble", "SecondsCountLsNibble", "SecondsCountMsNibble", "MinutesCountLsNibble", "MinutesCountMsNibble", "HoursCountLsNibble", "Last"];

fn structured_case(vi: usize, a: &Value, b: &Value, c: &Value, form: u8) -> CheckResult {
    let (name, fields) = STRUCT_VARIANTS[vi];
    let vals = [a, b, c];
    let v = if fields.is_empty() {
        match form {
            0 => json!(name),
            1 => json!({name: null}),
            _ => json!({name: {"channel": a}}),
        }
    } else if fields[0] == "<newtype>" {
        let f = FRAME_VARIANTS[(json_int(b).unwrap_or(0).rem_euclid(8)) as usize];
        if f == "Last" {
            let tct = ["Fps24", "Fps25", "Fps30DropFrame", "Fps30NonDrop", "Fps99"][(json_int(c).unwrap_or(0).rem_euclid(5)) as usize];
            let bit = json_int(a).unwrap_or(0) % 2 == 1;
            json!({name: {"Last": {"hours_count_ms_bit": bit, "time_code_type": tct}}})
        } else {
            json!({name: {f: a}})
        }
    } else {
        match form {
            0 => {
                let mut m = serde_json::Map::new();
                for (i, f) in fields.iter().enumerate() {
                    m.insert(f.to_string(), vals[i].clone());
                }
                json!({name: Value::Object(m)})
            }
            1 => json!({name: Value::Array(fields.iter().enumerate().map(|(i, _)| vals[i].clone()).collect())}),
            _ => {
                // one field missing
                let mut m = serde_json::Map::new();
                for (i, f) in fields.iter().enumerate().skip(1) {
                    m.insert(f.to_string(), vals[i].clone());
                }
                json!({name: Value::Object(m)})
            }
        }
    };
    let r = check_value::<StructuredShortMessage>(&v)?;
    let mut bad = false;
    for x in vals.iter().take(fields.len()) {
        if json_int(x).map_or(true, |n| !(0..=16383).contains(&n)) {
            bad = true;
        }
    }
    if let Some(m) = r {
        roundtrip(&m)?;
    }
    Ok(bad)
}

fn frame_case(fi: usize, a: &Value, form: u8) -> CheckResult {
    let f = FRAME_VARIANTS[fi];
    let v = if f == "Last" {
        match form {
            0 => json!({"Last": {"hours_count_ms_bit": a, "time_code_type": "Fps25"}}),
            1 => json!({"Last": {"hours_count_ms_bit": true, "time_code_type": a}}),
            2 => json!({"Last": [true, a]}),
            _ => {
                let tct = ["Fps24", "Fps25", "Fps30DropFrame", "Fps30NonDrop"][(json_int(a).unwrap_or(0).rem_euclid(4)) as usize];
                json!({"Last": {"hours_count_ms_bit": false, "time_code_type": tct}})
            }
        }
    } else {
        match form {
            0 => json!({f: a}),
            1 => json!({f: [a]}),
            2 => json!(f),
            _ => json!({f: {"0": a}}),
        }
    };
    let r = check_value::<TimeCodeQuarterFrame>(&v)?;
    if let Some(m) = r {
        roundtrip(&m)?;
    }
    Ok(json_int(a).map_or(true, |n| !(0..=15).contains(&n)))
}


// ---------------------------------------------------------------------------------------------
// Serialize - mutate - deserialize: the field names and shape come from the crate's own Serialize
// output (so fields the harness does not know by name are covered too); every leaf of the value
// tree is replaced by other values, fields are dropped, and whatever still deserializes must be valid.
// ---------------------------------------------------------------------------------------------

fn leaf_paths(v: &Value, prefix: Vec<String>, out: &mut Vec<Vec<String>>) {
    match v {
        Value::Object(m) => {
            for (k, x) in m {
                let mut p = prefix.clone();
                p.push(k.clone());
                leaf_paths(x, p, out);
            }
        }
        Value::Array(a) => {
            for (i, x) in a.iter().enumerate() {
                let mut p = prefix.clone();
                p.push(i.to_string());
                leaf_paths(x, p, out);
            }
        }
        _ => out.push(prefix),
    }
}

fn set_path(v: &mut Value, path: &[String], new: Option<Value>) {
    if path.is_empty() {
        return;
    }
    let last = path.len() - 1;
    let mut cur = v;
    for (i, k) in path.iter().enumerate() {
        let next = match cur {
            Value::Object(m) => {
                if i == last {
                    match new {
                        Some(n) => {
                            m.insert(k.clone(), n);
                        }
                        None => {
                            m.remove(k);
                        }
                    }
                    return;
                }
                m.get_mut(k)
            }
            Value::Array(a) => {
                let idx: usize = k.parse().unwrap_or(0);
                if i == last {
                    if let (Some(n), Some(slot)) = (new, a.get_mut(idx)) {
                        *slot = n;
                    }
                    return;
                }
                a.get_mut(idx)
            }
            _ => None,
        };
        match next {
            Some(n) => cur = n,
            None => return,
        }
    }
}

fn mutate_and_check<T: Valid + DeserializeOwned + Serialize>(x: &T) -> CheckResult {
    let base = serde_json::to_value(x).map_err(|e| Fail { sig: format!("{}/serialize_failed", T::TYPE), detail: e.to_string() })?;
    let mut paths = Vec::new();
    leaf_paths(&base, Vec::new(), &mut paths);
    let replacements: Vec<Value> = [0i64, 1, 15, 16, 31, 32, 33, 63, 64, 127, 128, 255, 256, 16383, 16384, -1].iter().map(|n| json!(n)).chain([json!(true), json!(false), json!(null), json!("DataIncrement"), json!("DataDecrement"), json!("DataEntry")]).collect();
    let mut accepted = 0;
    for p in &paths {
        for r in &replacements {
            let mut v = base.clone();
            set_path(&mut v, p, Some(r.clone()));
            if let Ok(y) = serde_json::from_value::<T>(v.clone()) {
                accepted += 1;
                y.valid().map_err(|f| Fail { sig: format!("{}/mutated_field", f.sig), detail: format!("own serialization {} with {} := {} -> {}", base, p.join("."), r, f.detail) })?;
            }
        }
        // dropping a field: accepted only if the result is valid
        let mut v = base.clone();
        set_path(&mut v, p, None);
        if v != base {
            if let Ok(y) = serde_json::from_value::<T>(v.clone()) {
                y.valid().map_err(|f| Fail { sig: format!("{}/dropped_field", f.sig), detail: format!("own serialization {} without {} -> {}", base, p.join("."), f.detail) })?;
                // and two fields at once (value + a flag)
            }
            for q in &paths {
                if q == p {
                    continue;
                }
                for r in &replacements {
                    let mut w = v.clone();
                    set_path(&mut w, q, Some(r.clone()));
                    if let Ok(y) = serde_json::from_value::<T>(w.clone()) {
                        accepted += 1;
                        y.valid().map_err(|f| Fail { sig: format!("{}/dropped_and_mutated_field", f.sig), detail: format!("own serialization {} without {} and with {} := {} -> {}", base, p.join("."), q.join("."), r, f.detail) })?;
                    }
                }
            }
        }
    }
    Ok(accepted > 0)
}

// --- random value trees shaped like each type ----------------------------------------------------

fn leaf_strategy() -> impl Strategy<Value = Value> {
    prop_oneof![
        6 => prop::sample::select(vec![0i64, 1, 15, 16, 31, 32, 63, 64, 127, 128, 255, 256, 16383, 16384, 65535, 65536, -1]).prop_map(|x| json!(x)),
        3 => (0i64..20000).prop_map(|x| json!(x)),
        1 => any::<i64>().prop_map(|x| json!(x)),
        1 => any::<bool>().prop_map(|x| json!(x)),
        1 => prop::sample::select(vec!["DataEntry", "DataIncrement", "DataDecrement", "Fps24", "1", ""]).prop_map(|x| json!(x)),
        1 => Just(json!(null)),
        1 => (-10.0f64..20000.0).prop_map(|x| json!(x)),
    ]
}

#[derive(Clone, Debug)]
pub struct Tree {
    pub ty: u8,
    pub form: u8,
    pub leaves: Vec<Value>,
    pub flags: Vec<bool>,
    pub drop: u8,
}

fn tree_strategy() -> impl Strategy<Value = Tree> {
    (0u8..4, 0u8..4, prop::collection::vec(leaf_strategy(), 6), prop::collection::vec(any::<bool>(), 3), any::<u8>()).prop_map(|(ty, form, leaves, flags, drop)| Tree { ty, form, leaves, flags, drop })
}

fn tree_value(t: &Tree) -> (Value, &'static str) {
    let l = &t.leaves;
    match t.ty {
        0 => (Value::Array(l[..3].to_vec()), "RawShortMessage"),
        1 => {
            let mut m = serde_json::Map::new();
            for (i, f) in ["channel", "msb_controller_number", "value"].iter().enumerate() {
                if t.drop % 16 != i as u8 {
                    m.insert(f.to_string(), l[i].clone());
                }
            }
            if t.form == 1 {
                (Value::Array(l[..3].to_vec()), "ControlChange14BitMessage")
            } else {
                (Value::Object(m), "ControlChange14BitMessage")
            }
        }
        2 => {
            let dt = ["DataEntry", "DataIncrement", "DataDecrement"][(t.drop / 16 % 3) as usize];
            let fields: [(&str, Value); 6] = [
                ("channel", l[0].clone()), ("number", l[1].clone()), ("value", l[2].clone()),
                ("is_registered", if t.form == 3 { l[3].clone() } else { json!(t.flags[0]) }),
                ("is_14_bit", json!(t.flags[1])),
                ("data_type", if t.form == 2 { l[4].clone() } else { json!(dt) }),
            ];
            if t.form == 1 {
                (Value::Array(fields.iter().map(|f| f.1.clone()).collect()), "ParameterNumberMessage")
            } else {
                let mut m = serde_json::Map::new();
                for (i, (k, v)) in fields.iter().enumerate() {
                    if t.drop % 16 != i as u8 {
                        m.insert(k.to_string(), v.clone());
                    }
                }
                (Value::Object(m), "ParameterNumberMessage")
            }
        }
        _ => {
            let vi = (t.drop as usize) % 23;
            let (name, fields) = STRUCT_VARIANTS[vi];
            if fields.is_empty() {
                (json!(name), "StructuredShortMessage")
            } else if fields[0] == "<newtype>" {
                (json!({name: {FRAME_VARIANTS[(t.form as usize + t.flags[0] as usize * 4) % 8]: l[0]}}), "StructuredShortMessage")
            } else {
                let mut m = serde_json::Map::new();
                for (i, f) in fields.iter().enumerate() {
                    m.insert(f.to_string(), l[i].clone());
                }
                (json!({name: Value::Object(m)}), "StructuredShortMessage")
            }
        }
    }
}

fn check_tree_value(ty: &str, v: &Value) -> Result<bool, Fail> {
    Ok(match ty {
        "RawShortMessage" => check_value::<RawShortMessage>(v)?.is_some(),
        "ControlChange14BitMessage" => check_value::<ControlChange14BitMessage>(v)?.is_some(),
        "ParameterNumberMessage" => check_value::<ParameterNumberMessage>(v)?.is_some(),
        "StructuredShortMessage" => check_value::<StructuredShortMessage>(v)?.is_some(),
        "TimeCodeQuarterFrame" => check_value::<TimeCodeQuarterFrame>(v)?.is_some(),
        "ShortMessageType" => match (&crate::impls::probe::<ShortMessageType>()).de_value(v) {
            Some(Some(t)) => {
                t.valid()?;
                ensure!(v.as_u64().map_or(false, |b| b <= 255 && ref_type(b as u8) == Some(t)), "ShortMessageType/acceptance", "{} deserialized to {:?}", v, t);
                true
            }
            _ => false,
        },
        "TimeCodeType" => check_value::<TimeCodeType>(v)?.is_some(),
        "DataType" => check_value::<DataType>(v)?.is_some(),
        "U4" => check_value::<U4>(v)?.is_some(),
        "U7" => check_value::<U7>(v)?.is_some(),
        "U14" => check_value::<U14>(v)?.is_some(),
        "Channel" => check_value::<Channel>(v)?.is_some(),
        "KeyNumber" => check_value::<KeyNumber>(v)?.is_some(),
        "ControllerNumber" => check_value::<ControllerNumber>(v)?.is_some(),
        _ => return fail("harness/unknown_type", ty.to_string()),
    })
}

fn check_tree_text(ty: &str, text: &str) -> Result<bool, Fail> {
    Ok(match ty {
        "RawShortMessage" => check_text::<RawShortMessage>(text)?.is_some(),
        "ControlChange14BitMessage" => check_text::<ControlChange14BitMessage>(text)?.is_some(),
        "ParameterNumberMessage" => check_text::<ParameterNumberMessage>(text)?.is_some(),
        "StructuredShortMessage" => check_text::<StructuredShortMessage>(text)?.is_some(),
        "TimeCodeQuarterFrame" => check_text::<TimeCodeQuarterFrame>(text)?.is_some(),
        "U7" => check_text::<U7>(text)?.is_some(),
        "U14" => check_text::<U14>(text)?.is_some(),
        _ => return fail("harness/unknown_type", ty.to_string()),
    })
}

// ---------------------------------------------------------------------------------------------
// Run
// ---------------------------------------------------------------------------------------------

// ---------------------------------------------------------------------------------------------
// Scanners are not (de)serializable today. If a later version derives the serde traits for them
// ("persist scanner state"), a deserialized scanner is a value obtained from untrusted input and
// must behave like one that new/feed/reset could have produced: its own serialization round-trips,
// and whatever mutated serialization is accepted never panics on feed and emits only valid messages.
// ---------------------------------------------------------------------------------------------

trait PScanSerdeY<T> {
    fn scanner_serde(&self, states: &[T], exercise: &dyn Fn(&T) -> Result<(), Fail>, name: &str) -> Option<CheckResult>;
}
impl<T: Serialize + DeserializeOwned + PartialEq + std::fmt::Debug> PScanSerdeY<T> for crate::impls::Probe<T> {
    fn scanner_serde(&self, states: &[T], exercise: &dyn Fn(&T) -> Result<(), Fail>, name: &str) -> Option<CheckResult> {
        let run = || -> CheckResult {
            let replacements: Vec<Value> = [0i64, 5, 31, 32, 40, 63, 64, 127, 128, 255, 16383, 16384, -1].iter().map(|n| json!(n)).chain([json!(true), json!(false), json!(null)]).collect();
            let mut accepted = 0u64;
            for x in states {
                let base = serde_json::to_value(x).map_err(|e| Fail { sig: format!("{}/serialize_failed", name), detail: e.to_string() })?;
                let back: Result<T, _> = serde_json::from_value(base.clone());
                ensure!(back.as_ref().ok() == Some(x), format!("{}/roundtrip_value", name), "{:?} -> {} -> {:?}", x, base, back.map_err(|e| e.to_string()));
                let mut paths = Vec::new();
                leaf_paths(&base, Vec::new(), &mut paths);
                for p in &paths {
                    for r in &replacements {
                        let mut v = base.clone();
                        set_path(&mut v, p, Some(r.clone()));
                        if let Ok(y) = serde_json::from_value::<T>(v) {
                            accepted += 1;
                            exercise(&y).map_err(|f| Fail { sig: format!("{}/deserialized_state/{}", name, f.sig), detail: format!("own serialization {} with {} := {} was accepted; then: {}", base, p.join("."), r, f.detail) })?;
                        }
                    }
                }
            }
            Ok(accepted > 0)
        };
        Some(run())
    }
}
trait PScanSerdeN<T> {
    fn scanner_serde(&self, _states: &[T], _exercise: &dyn Fn(&T) -> Result<(), Fail>, _name: &str) -> Option<CheckResult> {
        None
    }
}
impl<T> PScanSerdeN<T> for &crate::impls::Probe<T> {}

fn scanner_serde_case(which: u64) -> CheckResult {
    use helgoboss_midi::{ControlChange14BitMessageScanner, ParameterNumberMessageScanner};
    let cc = |ch: u8, cn: u8, v: u8| RawShortMessage::control_change(h_ch(ch), h_cn(cn), h_u7(v));
    match which {
        0 => {
            let mut states = vec![ControlChange14BitMessageScanner::new()];
            let mut s = ControlChange14BitMessageScanner::new();
            s.feed(&cc(0, 7, 100));
            s.feed(&cc(15, 31, 1));
            states.push(s);
            let exercise = |y: &ControlChange14BitMessageScanner| -> Result<(), Fail> {
                for ch in 0..16u8 {
                    for cn in 0..128u8 {
                        for v in [0u8, 127] {
                            let mut t = *y;
                            let m = cc(ch, cn, v);
                            match guarded(|| t.feed(&m)) {
                                Err(p) => return fail("feed_panics", format!("feed(CC ch{} cn{} v{}) panicked: {}", ch, cn, v, p)),
                                Ok(Some(out)) => out.valid()?,
                                Ok(None) => {}
                            }
                        }
                    }
                }
                Ok(())
            };
            (&crate::impls::probe::<ControlChange14BitMessageScanner>()).scanner_serde(&states, &exercise, "ControlChange14BitMessageScanner").unwrap_or(Ok(false))
        }
        _ => {
            let mut states = vec![ParameterNumberMessageScanner::new()];
            let mut s = ParameterNumberMessageScanner::new();
            for (ch, cn, v) in [(0u8, 99u8, 3u8), (0, 98, 4), (0, 6, 5), (15, 101, 0), (15, 100, 1)] {
                s.feed(&cc(ch, cn, v));
            }
            states.push(s);
            let exercise = |y: &ParameterNumberMessageScanner| -> Result<(), Fail> {
                for ch in 0..16u8 {
                    for cn in [6u8, 38, 96, 97, 98, 99, 100, 101, 0, 127] {
                        for v in [0u8, 127] {
                            let mut t = *y;
                            let m = cc(ch, cn, v);
                            match guarded(|| t.feed(&m)) {
                                Err(p) => return fail("feed_panics", format!("feed(CC ch{} cn{} v{}) panicked: {}", ch, cn, v, p)),
                                Ok(Some(out)) => out.valid()?,
                                Ok(None) => {}
                            }
                        }
                    }
                }
                Ok(())
            };
            (&crate::impls::probe::<ParameterNumberMessageScanner>()).scanner_serde(&states, &exercise, "ParameterNumberMessageScanner").unwrap_or(Ok(false))
        }
    }
}

pub fn run_c19(ctx: &Ctx) -> Report {
    let mut subs = Vec::new();
    run_ints_for::<U4>(ctx, &mut subs);
    run_ints_for::<U7>(ctx, &mut subs);
    run_ints_for::<U14>(ctx, &mut subs);
    run_ints_for::<Channel>(ctx, &mut subs);
    run_ints_for::<KeyNumber>(ctx, &mut subs);
    run_ints_for::<ControllerNumber>(ctx, &mut subs);
    // enums
    {
        let mut sub = Sub::new("enums", "ShortMessageType: every u8 (typed and JSON) + odd scalars; TimeCodeType / DataType: all variant names, indices, wrong shapes; round trips", "non-trivial = input that is not a valid representation", true);
        for b in 0..=255u8 {
            let v = json!(b);
            sub.eval(b as u128, || json!({"kind": "value", "type": "ShortMessageType", "input": v}), || {
                // (probe: only if ShortMessageType is deserializable in this configuration)
                if let Some(r) = (&crate::impls::probe::<ShortMessageType>()).de_value(&v) {
                    ensure!(r == ref_type(b), "ShortMessageType/acceptance", "{} -> {:?}, table says {:?}", b, r, ref_type(b));
                }
                if let Some(t) = (&crate::impls::probe::<ShortMessageType>()).de_u8(b) {
                    ensure!(t == ref_type(b), "ShortMessageType/acceptance_typed", "{} -> {:?}", b, t);
                }
                Ok(ref_type(b).is_none())
            });
        }
        for v in odd_scalars().into_iter().chain([json!(256), json!(0x180), json!(-112)]) {
            sub.eval(1 << 20, || json!({"kind": "value", "type": "ShortMessageType", "input": v}), || check_tree_value("ShortMessageType", &v).map(|ok| !ok));
        }
        #[cfg(feature = "hm_serde_repr")]
        for (_, t) in TYPE_TABLE.iter() {
            sub.eval(0, || rt_json(t), || roundtrip(t).map(|_| false));
        }
        for v in enum_inputs(&["Fps24", "Fps25", "Fps30DropFrame", "Fps30NonDrop"]) {
            sub.eval(2, || json!({"kind": "value", "type": "TimeCodeType", "input": v}), || check_tree_value("TimeCodeType", &v).map(|ok| !ok));
        }
        for v in enum_inputs(&["DataEntry", "DataIncrement", "DataDecrement"]) {
            sub.eval(2, || json!({"kind": "value", "type": "DataType", "input": v}), || check_tree_value("DataType", &v).map(|ok| !ok));
        }
        for t in [TimeCodeType::Fps24, TimeCodeType::Fps25, TimeCodeType::Fps30DropFrame, TimeCodeType::Fps30NonDrop] {
            sub.eval(0, || rt_json(&t), || roundtrip(&t).map(|_| false));
        }
        for t in [DataType::DataEntry, DataType::DataIncrement, DataType::DataDecrement] {
            sub.eval(0, || rt_json(&t), || roundtrip(&t).map(|_| false));
        }
        sub.samples.push(json!({"kind": "value", "type": "ShortMessageType", "input": 0xB1}));
        subs.push(sub);
    }
    let fv = field_values();
    // quarter frames
    {
        let mut sub = Sub::new("quarter_frames", "TimeCodeQuarterFrame: 8 variants x field values x 4 shapes; round trip of all 120 frames", "non-trivial = nibble outside 0-15 or wrong shape", true);
        for fi in 0..8 {
            for a in fv.iter().chain(odd_scalars().iter()) {
                for form in 0..4u8 {
                    sub.eval(fi as u128, || json!({"kind": "frame", "variant": fi, "a": a, "form": form}), || frame_case(fi, a, form));
                }
            }
        }
        for i in 0..120 {
            let f = frame_by_index(i);
            sub.eval(i as u128, || rt_json(&f), || roundtrip(&f).map(|_| false));
        }
        sub.samples.push(json!({"kind": "frame", "variant": 0, "a": 16, "form": 0}));
        subs.push(sub);
    }
    // RawShortMessage
    {
        let proto = Sub::new("raw_short_message", "RawShortMessage: every status byte 0-256 x field values^2 as [status, d1, d2]; wrong arities; round trip of sampled valid messages", "non-trivial = right shape with an invalid status or data byte", true);
        let statuses: Vec<Value> = (0..=256i64).map(|s| json!(s)).chain([json!(-1), json!(65536)]).collect();
        let n = statuses.len() as u64 * fv.len() as u64 * fv.len() as u64;
        let mut sub = par_enum(ctx, &proto, n, |sub, i| {
            let s = &statuses[(i / (fv.len() * fv.len()) as u64) as usize];
            let a = &fv[((i / fv.len() as u64) % fv.len() as u64) as usize];
            let b = &fv[(i % fv.len() as u64) as usize];
            let f = [s.clone(), a.clone(), b.clone()];
            sub.eval(i as u128, || json!({"kind": "raw", "fields": f}), || raw_case(&f));
        });
        for f in [vec![], vec![json!(144)], vec![json!(144), json!(1)], vec![json!(144), json!(1), json!(2), json!(3)], vec![json!("144"), json!(1), json!(2)], vec![json!(144.0), json!(1), json!(2)], vec![json!([144, 1, 2])]] {
            sub.eval(0, || json!({"kind": "raw", "fields": f}), || raw_case(&f));
        }
        for s in (0x80..=0xFFu8).step_by(ctx.pick(16, 1, 1)) {
            for (a, b) in [(0u8, 0u8), (127, 127), (64, 1)] {
                let m = RawShortMessage::from_bytes((s, h_u7(a), h_u7(b))).unwrap();
                sub.eval(0, || rt_json(&m), || roundtrip(&m).map(|_| false));
            }
        }
        sub.samples.push(json!({"kind": "raw", "fields": [5, 0, 0]}));
        sub.samples.push(json!({"kind": "raw", "fields": [144, 128, 0]}));
        subs.push(sub);
    }
    // ControlChange14BitMessage
    {
        let proto = Sub::new("control_change_14_bit_message", "ControlChange14BitMessage: field values^3 x {map, seq, reordered map with extra field, missing field}; round trip of all 16 x 32 x boundary values", "non-trivial = right shape with an out-of-range / invalid field", true);
        let k = fv.len() as u64;
        let mut sub = par_enum(ctx, &proto, k * k * k * 4, |sub, i| {
            let form = (i % 4) as u8;
            let j = i / 4;
            let (a, b, c) = (&fv[(j / (k * k)) as usize], &fv[((j / k) % k) as usize], &fv[(j % k) as usize]);
            sub.eval(i as u128, || json!({"kind": "cc14", "channel": a, "msb_controller_number": b, "value": c, "form": form}), || cc14_case(a, b, c, form));
        });
        for ch in 0..16u8 {
            for n in 0..32u8 {
                for v in [0u16, 1, 127, 128, 16383] {
                    let m = ControlChange14BitMessage::new(h_ch(ch), h_cn(n), h_u14(v));
                    sub.eval(0, || rt_json(&m), || roundtrip(&m).map(|_| false));
                }
            }
        }
        sub.samples.push(json!({"kind": "cc14", "channel": 0, "msb_controller_number": 32, "value": 5, "form": 0}));
        subs.push(sub);
    }
    // ParameterNumberMessage
    {
        let proto = Sub::new("parameter_number_message", "ParameterNumberMessage: field values^3 x registered x is_14_bit x 3 data types (+ an unknown one) x {map, seq, reordered map}; round trip over constructor sweeps", "non-trivial = right shape with an out-of-range or inconsistent field combination", true);
        let k = fv.len() as u64;
        let dts = ["DataEntry", "DataIncrement", "DataDecrement", "DataNope"];
        let per = 2 * 2 * 4 * 3u64;
        let mut sub = par_enum(ctx, &proto, k * k * k * per, |sub, i| {
            let r = i % per;
            let j = i / per;
            let (a, b, c) = (&fv[(j / (k * k)) as usize], &fv[((j / k) % k) as usize], &fv[(j % k) as usize]);
            let (reg, is14, dt, form) = (r % 2 == 1, (r / 2) % 2 == 1, dts[((r / 4) % 4) as usize], ((r / 16) % 3) as u8);
            sub.eval(i as u128, || json!({"kind": "pn", "channel": a, "number": b, "value": c, "is_registered": reg, "is_14_bit": is14, "data_type": dt, "form": form}), || pn_case(a, b, c, reg, is14, dt, form));
        });
        for c in 0..8usize {
            for ch in [0u8, 15] {
                for number in [0u16, 127, 128, 16383] {
                    for value in [0u16, 1, 127, 128, 16383] {
                        if value > crate::p_nrpn::value_max(c) {
                            continue;
                        }
                        let m = crate::p_nrpn::ctor_build(c, ch, number, value);
                        sub.eval(0, || rt_json(&m), || roundtrip(&m).map(|_| false));
                    }
                }
            }
        }
        sub.samples.push(json!({"kind": "pn", "channel": 0, "number": 1, "value": 5000, "is_registered": false, "is_14_bit": false, "data_type": "DataEntry", "form": 0}));
        subs.push(sub);
    }
    // StructuredShortMessage
    {
        let proto = Sub::new("structured_short_message", "StructuredShortMessage: 23 variants x field values^3 x {map, seq, missing field}; round trip of every structured value (quick: stride)", "non-trivial = right variant with an out-of-range field", true);
        let k = fv.len() as u64;
        let mut sub = par_enum(ctx, &proto, 23 * k * k * k * 3, |sub, i| {
            let form = (i % 3) as u8;
            let j = i / 3;
            let vi = (j / (k * k * k)) as usize;
            let (a, b, c) = (&fv[((j / (k * k)) % k) as usize], &fv[((j / k) % k) as usize], &fv[(j % k) as usize]);
            sub.eval(i as u128, || json!({"kind": "structured", "variant": vi, "a": a, "b": b, "c": c, "form": form}), || structured_case(vi, a, b, c, form));
        });
        let stride = ctx.pick(997u64, 61, 1);
        let rt = par_enum(ctx, &proto, N_STRUCTURED / stride, |sub, j| {
            let m = structured_by_index(j * stride);
            sub.eval(j as u128, || rt_json(&m), || roundtrip(&m).map(|_| false));
        });
        sub.merge(rt);
        sub.exhaustive = stride == 1;
        sub.samples.push(json!({"kind": "structured", "variant": 1, "a": 16, "b": 0, "c": 0, "form": 0}));
        subs.push(sub);
    }
    // serialize - mutate - deserialize
    {
        let mut sub = Sub::new(
            "serialize_mutate_deserialize",
            "valid values of the four composite types are serialized by the crate itself; every leaf of that tree is replaced by 22 other values, every field is dropped (alone and together with a mutation of another field); whatever still deserializes must satisfy the validity predicate",
            "non-trivial = at least one mutated tree was accepted",
            true,
        );
        let mut k = 0u128;
        for (ch, n, v) in [(0u8, 0u8, 0u16), (15, 31, 16383), (5, 7, 1057), (1, 6, 200)] {
            let m = ControlChange14BitMessage::new(h_ch(ch), h_cn(n), h_u14(v));
            k += 1;
            sub.eval(k, || rt_json(&m), || mutate_and_check(&m));
        }
        for c in 0..8usize {
            for (ch, number, value) in [(0u8, 0u16, 0u16), (15, 16383, crate::p_nrpn::value_max(c)), (3, 420, 100), (0, 6, 5)] {
                let m = crate::p_nrpn::ctor_build(c, ch, number, value);
                k += 1;
                sub.eval(k, || rt_json(&m), || mutate_and_check(&m));
            }
        }
        for bytes in [(0x90u8, 64u8, 100u8), (0xB5, 120, 0), (0xE1, 5, 3), (0xF2, 1, 2), (0xF8, 0, 0), (0x80, 127, 127)] {
            let m = RawShortMessage::from_bytes((bytes.0, h_u7(bytes.1), h_u7(bytes.2))).unwrap();
            k += 1;
            sub.eval(k, || rt_json(&m), || mutate_and_check(&m));
        }
        for i in [0u64, 300_000, 600_000, 900_000, 1_052_700, 1_314_900, 1_314_950, 1_331_300, N_STRUCTURED - 1] {
            let m = structured_by_index(i);
            k += 1;
            sub.eval(k, || rt_json(&m), || mutate_and_check(&m));
        }
        sub.samples.push(rt_json(&ControlChange14BitMessage::new(h_ch(5), h_cn(7), h_u14(1057))));
        subs.push(sub);
    }
    // JSON text specials: duplicated fields
    {
        let mut sub = Sub::new("json_text_specials", "hand-written JSON texts: duplicated fields, nested wrong types, huge numbers, trailing data", "every text", true);
        let texts: Vec<(&str, String)> = vec![
            ("ControlChange14BitMessage", r#"{"channel":0,"channel":1,"msb_controller_number":1,"value":1}"#.into()),
            ("ControlChange14BitMessage", r#"{"channel":0,"msb_controller_number":40,"msb_controller_number":1,"value":1}"#.into()),
            ("ControlChange14BitMessage", r#"{"channel":0,"msb_controller_number":1,"msb_controller_number":40,"value":1}"#.into()),
            ("ParameterNumberMessage", r#"{"channel":0,"number":1,"value":5000,"is_registered":false,"is_14_bit":true,"is_14_bit":false,"data_type":"DataEntry"}"#.into()),
            ("ParameterNumberMessage", r#"{"channel":0,"number":1,"value":1,"is_registered":false,"is_14_bit":true,"data_type":"DataIncrement"}"#.into()),
            ("ParameterNumberMessage", r#"{"channel":0,"number":1,"value":128,"is_registered":true,"is_14_bit":false,"data_type":"DataDecrement"}"#.into()),
            ("RawShortMessage", "[5,0,0]".into()),
            ("RawShortMessage", "[127,127,127]".into()),
            ("RawShortMessage", "[144,200,0]".into()),
            ("RawShortMessage", "[1e2,0,0]".into()),
            ("RawShortMessage", "[18446744073709551616,0,0]".into()),
            ("RawShortMessage", "[144,0,0] x".into()),
            ("U7", "128".into()),
            ("U7", "1e1".into()),
            ("U7", "00".into()),
            ("U14", "16384".into()),
            ("U14", "99999999999999999999999999".into()),
            ("StructuredShortMessage", r#"{"NoteOn":{"channel":16,"key_number":0,"velocity":0}}"#.into()),
            ("StructuredShortMessage", r#"{"NoteOn":{"channel":1,"key_number":0,"velocity":0},"NoteOff":{"channel":1,"key_number":0,"velocity":0}}"#.into()),
            ("StructuredShortMessage", r#"{"TimeCodeQuarterFrame":{"FrameCountLsNibble":16}}"#.into()),
            ("TimeCodeQuarterFrame", r#"{"Last":{"hours_count_ms_bit":true,"time_code_type":"Fps30NonDrop"}}"#.into()),
        ];
        for (ty, text) in texts {
            sub.eval(text.len() as u128, || json!({"kind": "text", "type": ty, "text": text}), || check_tree_text(ty, &text).map(|_| true));
        }
        sub.samples.push(json!({"kind": "text", "type": "RawShortMessage", "text": "[5,0,0]"}));
        subs.push(sub);
    }
    // random value trees
    {
        let cases = ctx.pick(3_000u64, 200_000, 2_000_000);
        let proto = Sub::new("random_value_trees", "seeded random JSON value trees shaped like each composite type (right field names / arity, leaves from boundary integers, arbitrary integers, floats, bools, strings, null; missing fields; seq and map forms)", "non-trivial = the input was accepted, or is of the right shape; distinct by hash", false);
        let mut sub = par_proptest(
            ctx,
            &proto,
            cases,
            tree_strategy,
            |t: &Tree| {
                let (v, ty) = tree_value(t);
                json!({"kind": "value", "type": ty, "input": v})
            },
            |t: &Tree| {
                let (v, ty) = tree_value(t);
                let accepted = check_tree_value(ty, &v)?;
                Ok(ROutcome { nontrivial: true, classes: if accepted { vec!["accepted"] } else { vec!["rejected"] }, hash: hash_str(&format!("{}{}", ty, v)) })
            },
        );
        sub.floor("accepted", 30);
        sub.floor("rejected", 300);
        subs.push(sub);
    }
    {
        let mut sub = Sub::new("probed_scanner_state", "the two non-polling scanners, if they ever become (de)serializable (they are not today): own serializations round-trip; every single-leaf mutation of them that is accepted must yield a scanner that never panics on any Control Change and emits only valid messages", "non-trivial = the impls exist and a mutated state was accepted", true);
        sub.supplementary = true;
        for which in 0..2u64 {
            sub.eval(which as u128, || json!({"kind": "scanner_state", "scanner": which}), || scanner_serde_case(which));
        }
        sub.samples.push(json!({"kind": "scanner_state", "note": "nothing to check unless the impls exist"}));
        subs.push(sub);
    }
    Report {
        subs,
        rule: "inputs are fed through serde's typed primitive value deserializers, the generic self-describing serde_json::Value deserializer and JSON text; oracle: Err, or Ok(v) where v satisfies the validity predicate of its type (equal to the value the checked public constructors build from its own accessors; no accessor/encoder panics or yields an out-of-range byte); valid values must round-trip".into(),
        assumptions: vec![
            "the generic deserializer is serde_json's Value (self-describing data model: null/bool/u64/i64/f64/string/seq/map); non-self-describing formats are represented only by serde's typed primitive deserializers".into(),
            "configuration: features std + serde + serde_repr".into(),
        ],
    }
}

pub fn replay_c19(_sub: &str, case: &Value) -> Option<CheckResult> {
    let arr = |v: &Value| v.clone();
    match case["kind"].as_str()? {
        "int_typed" => {
            let x = json_int(&case["value"])?;
            let src = case["source"].as_str()?.to_string();
            macro_rules! t { ($($n:ident),*) => { match case["type"].as_str()? { $( stringify!($n) => Some(int_typed::<$n>(&src, x)), )* _ => None } }; }
            t!(U4, U7, U14, Channel, KeyNumber, ControllerNumber)
        }
        "int_in_place" => {
            let x = json_int(&case["value"])?;
            macro_rules! t { ($($n:ident),*) => { match case["type"].as_str()? { $( stringify!($n) => Some(check_in_place::<$n>(x)), )* _ => None } }; }
            t!(U4, U7, U14, Channel, KeyNumber, ControllerNumber)
        }
        "binary" => Some(check_tree_value(case["type"].as_str()?, &case["input"])),
        "int_other_carrier" => {
            let k = json_u64(&case["carrier"])? as usize;
            macro_rules! t { ($($n:ident),*) => { match case["type"].as_str()? { $( stringify!($n) => Some(int_other_carriers::<$n>(k)), )* _ => None } }; }
            t!(U4, U7, U14, Channel, KeyNumber, ControllerNumber)
        }
        "int_json" => {
            let v = &case["input"];
            macro_rules! t { ($($n:ident),*) => { match case["type"].as_str()? { $( stringify!($n) => Some(int_json::<$n>(v)), )* _ => None } }; }
            t!(U4, U7, U14, Channel, KeyNumber, ControllerNumber)
        }
        "scanner_state" => json_u64(&case["scanner"]).map(scanner_serde_case),
        "value" => Some(check_tree_value(case["type"].as_str()?, &case["input"])),
        "text" => Some(check_tree_text(case["type"].as_str()?, case["text"].as_str()?)),
        "raw" => Some(raw_case(case["fields"].as_array()?)),
        "cc14" => Some(cc14_case(&arr(&case["channel"]), &arr(&case["msb_controller_number"]), &arr(&case["value"]), json_u8(&case["form"])?)),
        "pn" => Some(pn_case(&arr(&case["channel"]), &arr(&case["number"]), &arr(&case["value"]), case["is_registered"].as_bool()?, case["is_14_bit"].as_bool()?, case["data_type"].as_str()?, json_u8(&case["form"])?)),
        "structured" => Some(structured_case(json_u64(&case["variant"]).filter(|v| *v < 23)? as usize, &case["a"], &case["b"], &case["c"], json_u8(&case["form"])?)),
        "frame" => Some(frame_case(json_u64(&case["variant"]).filter(|v| *v < 8)? as usize, &case["a"], json_u8(&case["form"])?)),
        "roundtrip" => {
            let v = &case["json"];
            macro_rules! t { ($($n:ident),*) => { match case["type"].as_str()? { $( stringify!($n) => Some(replay_roundtrip::<$n>(v)), )* _ => None } }; }
            t!(U4, U7, U14, Channel, KeyNumber, ControllerNumber, TimeCodeType, DataType, TimeCodeQuarterFrame, RawShortMessage, StructuredShortMessage, ControlChange14BitMessage, ParameterNumberMessage)
        }
        _ => None,
    }
}

pub fn fuzz_text(ty: &str, text: &str) -> Result<bool, Fail> {
    check_tree_text(ty, text)
}

/// C07, second configuration (features serde + serde_repr): a ControlChange14BitMessage can be
/// *created* exactly for MSB controller numbers 0-31 - also through deserialization.
pub fn run_c07_serde(ctx: &Ctx) -> Report {
    let mut sub = Sub::new(
        "creation_by_deserialization",
        "ControlChange14BitMessage deserialized (map and seq form, serde's typed deserializers via serde_json::Value and JSON text) for all 128 controller numbers x channels {0,15} x values {0,16383}: accepted exactly for 0-31 and equal to new(..)",
        "non-trivial = controller number outside 0-31",
        true,
    );
    for cn in 0..=128i64 {
        for ch in [0i64, 15] {
            for v in [0i64, 16383] {
                for form in 0..2u8 {
                    let (a, b, c) = (json!(ch), json!(cn), json!(v));
                    sub.eval(cn as u128, || json!({"kind": "cc14", "channel": a, "msb_controller_number": b, "value": c, "form": form}), || {
                        let nt = cc14_case(&a, &b, &c, form)?;
                        let input = if form == 0 { json!({"channel": a, "msb_controller_number": b, "value": c}) } else { json!([a, b, c]) };
                        let accepted = serde_json::from_value::<ControlChange14BitMessage>(input).is_ok();
                        ensure!(accepted == (cn <= 31), "ControlChange14BitMessage/creation_by_deserialization", "MSB controller {} accepted: {}", cn, accepted);
                        Ok(nt)
                    });
                }
            }
        }
    }
    sub.add_samples(129, ctx.seed, |i| json!({"kind": "cc14", "channel": 0, "msb_controller_number": i, "value": 0, "form": 0}));
    Report {
        subs: vec![sub],
        rule: "exhaustive over the controller numbers; creation through deserialization must agree with the constructor".into(),
        assumptions: vec!["configuration: features std + serde + serde_repr".into()],
    }
}

/// Secondary (serde) configuration of C04 / C09: the parts of the deserialization checks that
/// concern the restricted integers resp. the (N)RPN message - deserialization is one more safe way
/// to obtain such values.
pub fn run_serde_part(ctx: &Ctx, prop: &str) -> Report {
    let mut r = run_c19(ctx);
    r.subs.retain(|s| match prop {
        "C04" => s.name.starts_with("int_"),
        _ => s.name == "parameter_number_message" || s.name == "serialize_mutate_deserialize" || s.name == "random_value_trees" || s.name == "json_text_specials",
    });
    for s in r.subs.iter_mut() {
        s.degenerate = None;
        if prop != "C04" {
            // only failures about the (N)RPN message belong to C09
            s.failures.retain(|k, _| k.contains("ParameterNumberMessage"));
        }
        for f in s.failures.values_mut() {
            f.sub = format!("serde/{}", s.name);
        }
        s.name = format!("serde/{}", s.name);
    }
    r.rule = format!("secondary configuration (features std + serde + serde_repr) of {}: values obtained by deserialization satisfy the same invariants", prop);
    r
}
