//! C18: real-time safety - no heap allocation and no undocumented panic. The workloads of the
//! other properties are re-run (reduced) in a low-optimisation build with the allocation counter
//! armed around every crate call and the panic monitor active; plus dedicated formatting sweeps.
use crate::engine::*;
use crate::ensure;
use crate::p_ints::{Nt, StackBuf};
use helgoboss_midi::{Channel, ControllerNumber, KeyNumber, RawShortMessage, ShortMessageFactory, U14, U4, U7};
use serde_json::{json, Value};
use std::convert::TryFrom;
use std::fmt::Write;

fn relevant(sig: &str) -> bool {
    let s = sig.to_ascii_lowercase();
    (s == "alloc" || s.contains("panic")) && !s.contains("no_panic") && !s.contains("accepts")
}

fn fmt_int<N: Nt>(v: N) -> CheckResult {
    let mut sb = StackBuf::new();
    let r = api(|| write!(sb, "{}", v));
    ensure!(r.is_ok() && sb.len > 0, format!("format/display_failed/{}", N::NAME), "{:?}", v);
    let mut sb = StackBuf::new();
    let r = api(|| write!(sb, "{:?}", v));
    ensure!(r.is_ok() && sb.len > 0, format!("format/debug_failed/{}", N::NAME), "{:?}", v);
    let mut sb = StackBuf::new();
    let _ = api(|| write!(sb, "{:>8}|{:<6}|{:05}", v, v, v));
    Ok(true)
}

fn fmt_errors() -> CheckResult {
    let e1 = U7::try_from(200u8).err();
    let e2 = "x".parse::<U7>().err();
    let e3 = RawShortMessage::from_bytes((5, U7::MIN, U7::MIN)).err();
    ensure!(e1.is_some() && e2.is_some() && e3.is_some(), "format/error_values", "expected three errors");
    let mut sb = StackBuf::new();
    let r = api(|| write!(sb, "{} / {:?}", e1.as_ref().unwrap(), e1.as_ref().unwrap()));
    ensure!(r.is_ok() && sb.len > 0, "format/try_from_greater_error", "");
    let mut sb = StackBuf::new();
    let r = api(|| write!(sb, "{} / {:?}", e2.as_ref().unwrap(), e2.as_ref().unwrap()));
    ensure!(r.is_ok() && sb.len > 0, "format/parse_int_error", "");
    let mut sb = StackBuf::new();
    let r = api(|| write!(sb, "{} / {:?}", e3.as_ref().unwrap(), e3.as_ref().unwrap()));
    ensure!(r.is_ok() && sb.len > 0, "format/from_bytes_error", "");
    Ok(true)
}

pub fn run_c18(ctx: &Ctx) -> Report {
    JUDGE_ALLOCS.store(true, std::sync::atomic::Ordering::Relaxed);
    let mut subs: Vec<Sub> = Vec::new();
    let mut props: Vec<&str> = vec!["C01", "C02", "C03", "C04", "C05", "C06", "C07", "C08", "C09", "C10", "C11", "C15", "C16", "C17"];
    if cfg!(feature = "hm_std") {
        props.extend(["C12", "C13", "C14"]);
    }
    if ctx.config.contains("realclock") {
        // second configuration: guard off, real std::time::Instant (timeouts 0 and MAX only) - only
        // the polling scanner's workloads differ from the first configuration
        props = vec!["C12", "C13", "C14"];
    }
    let mut ignored_other = 0u64;
    for p in props {
        // quick: reduced workloads; thorough: the unreduced quick workloads of the other properties
        let sub_ctx = Ctx { prop: p.to_string(), reduced: !ctx.thorough_c18(), tier: Tier::Quick, ..ctx.clone() };
        if let Some(rep) = crate::run_property(&sub_ctx) {
            for mut s in rep.subs {
                s.name = format!("{}/{}", p, s.name);
                // keep only real-time-safety failures; semantic failures belong to the other property
                let before = s.failures.len();
                s.failures.retain(|k, _| relevant(k));
                for f in s.failures.values_mut() {
                    f.sub = s.name.clone();
                    f.case = json!({"from_property": p, "sub": s.name.splitn(2, '/').nth(1).unwrap_or(""), "case": f.case.clone()});
                }
                ignored_other += (before - s.failures.len()) as u64;
                s.degenerate = None;
                s.rule = format!("workload of {} under the allocation counter / panic monitor", p);
                s.samples.truncate(1);
                subs.push(s);
            }
        }
    }
    // dedicated formatting sweeps
    {
        let mut sub = Sub::new("format_integers_and_errors", "Display, Debug and padded formatting of every value of the six integer types and Display/Debug of the three error types, written into a stack buffer", "every value", true);
        macro_rules! f {
            ($($n:ident),*) => { $( for v in 0..=<$n as Nt>::MAXV { let x = <$n as Nt>::new_repr(v); sub.eval(v, || json!({"format": stringify!($n), "value": v as u64}), || fmt_int(x)); } )* };
        }
        f!(U4, U7, U14, Channel, KeyNumber, ControllerNumber);
        sub.eval(0, || json!({"format": "errors"}), fmt_errors);
        sub.eval(1, || json!({"format": "errors"}), fmt_errors);
        sub.samples.push(json!({"format": "U14", "value": 16383}));
        subs.push(sub);
    }
    // distinct (entry point, outcome class) pairs are the honest measure here: count subs with work
    let mut r = Report {
        subs,
        rule: "every crate call of the (reduced) workloads of C01-C17 is executed in a build with opt-level 0, overflow checks and debug assertions, with a counting global allocator armed around it and a panic monitor; violation = any allocation inside a crate call, or any panic outside calls the harness made expecting one (documented panics)".into(),
        assumptions: vec![
            "absence of allocation is established for the executed paths only".into(),
            "generic crate functions are monomorphised in the harness crate, so the harness itself is built with opt-level 0 as well".into(),
        ],
    };
    if ignored_other > 0 {
        r.assumptions.push(format!("{} failure signature(s) of other properties were seen and ignored here (they are reported by their own checks)", ignored_other));
    }
    r
}

pub fn replay_c18(_sub: &str, case: &Value) -> Option<CheckResult> {
    if let Some(f) = case.get("format").and_then(|v| v.as_str()) {
        if f == "errors" {
            return Some(fmt_errors());
        }
        let v = json_u64(&case["value"])? as u128;
        macro_rules! t { ($($n:ident),*) => { match f { $( stringify!($n) => { if v <= <$n as Nt>::MAXV { Some(fmt_int(<$n as Nt>::new_repr(v))) } else { None } } )* _ => None } }; }
        return t!(U4, U7, U14, Channel, KeyNumber, ControllerNumber);
    }
    let p = case["from_property"].as_str()?;
    let sub = case["sub"].as_str()?;
    // re-run the original case; only allocation / panic outcomes count (main.rs checks allocations)
    match crate::replay_case(p, sub, &case["case"])? {
        Ok(b) => Some(Ok(b)),
        Err(f) if relevant(&f.sig) => Some(Err(f)),
        Err(_) => Some(Ok(true)),
    }
}
