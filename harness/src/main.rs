use std::time::Instant;
use vharness::engine::*;

#[global_allocator]
static GLOBAL: CountingAlloc = CountingAlloc;

fn usage() -> ! {
    eprintln!("usage: vcheck run <Cxx> quick|thorough --config <cfg> [--partial-out <p>] [--merge <p>]... | vcheck replay <Cxx> <file>");
    std::process::exit(2)
}

fn main() {
    install_panic_hook();
    let args: Vec<String> = std::env::args().collect();
    if args.len() < 4 {
        usage();
    }
    let verif_dir = std::env::var("VERIF_DIR").unwrap_or_else(|_| "/verif".to_string());
    let seed = std::env::var("VERIF_SEED").ok().and_then(|s| s.parse::<u64>().ok()).unwrap_or(0);
    let threads = std::env::var("VERIF_THREADS")
        .ok()
        .and_then(|s| s.parse::<usize>().ok())
        .unwrap_or_else(|| std::thread::available_parallelism().map(|n| n.get()).unwrap_or(4).min(16));
    match args[1].as_str() {
        "run" => {
            let prop = args[2].clone();
            let tier = match args[3].as_str() {
                "quick" => Tier::Quick,
                "thorough" => Tier::Thorough,
                _ => usage(),
            };
            let mut config = "main".to_string();
            let mut partial_out = None;
            let mut merge = Vec::new();
            let mut i = 4;
            while i < args.len() {
                match args[i].as_str() {
                    "--config" => {
                        config = args.get(i + 1).cloned().unwrap_or_else(|| usage());
                        i += 2;
                    }
                    "--partial-out" => {
                        partial_out = Some(args.get(i + 1).cloned().unwrap_or_else(|| usage()));
                        i += 2;
                    }
                    "--merge" => {
                        merge.push(args.get(i + 1).cloned().unwrap_or_else(|| usage()));
                        i += 2;
                    }
                    _ => usage(),
                }
            }
            // the secondary no-std configuration of a property other than C04 always runs the quick
            // workload (the same code paths; the thorough depth is spent in the primary configuration)
            let run_tier = if (config == "nostd" && prop != "C04") || (config == "serde" && prop != "C19" && prop != "C07") || config == "serdenostd" || config == "serdeonly" || config == "plain" || config == "plainnostd" { Tier::Quick } else { tier };
            let ctx = Ctx { prop, tier: run_tier, seed, threads, config, reduced: false };
            let started = Instant::now();
            let report = match guarded(|| vharness::run_property(&ctx)) {
                Ok(Some(r)) => r,
                Ok(None) => {
                    eprintln!("vcheck: property {} is not implemented in configuration {}", ctx.prop, ctx.config);
                    std::process::exit(2);
                }
                Err(p) => {
                    eprintln!("vcheck: harness panicked outside a case (infrastructure): {}", p);
                    std::process::exit(2);
                }
            };
            let fin = finish(&ctx, report, started, partial_out.as_deref(), &merge, &verif_dir);
            std::process::exit(fin.exit_code);
        }
        "replay" => {
            let prop = args[2].clone();
            let text = std::fs::read_to_string(&args[3]).unwrap_or_else(|e| {
                eprintln!("cannot read {}: {}", args[3], e);
                std::process::exit(2)
            });
            let v: serde_json::Value = serde_json::from_str(&text).unwrap_or_else(|e| {
                eprintln!("cannot parse {}: {}", args[3], e);
                std::process::exit(2)
            });
            let sub = v["sub"].as_str().unwrap_or("").to_string();
            let a0 = allocs();
            let r = guarded(|| vharness::replay_case(&prop, &sub, &v["case"]));
            let a1 = allocs();
            match r {
                Ok(None) => {
                    eprintln!("vcheck: cannot decode replay case for {} / {}", prop, sub);
                    std::process::exit(2);
                }
                Ok(Some(Ok(_))) => {
                    if a1 != a0 && prop == "C18" {
                        println!("replay: {} heap allocation(s) inside crate calls", a1 - a0);
                        println!("VIOLATION property={} replay={}", prop, args[3]);
                        std::process::exit(1);
                    }
                    println!("replay: case passes (property holds on this input)");
                    std::process::exit(0);
                }
                Ok(Some(Err(f))) => {
                    println!("replay: {} :: {}", f.sig, f.detail);
                    println!("VIOLATION property={} replay={}", prop, args[3]);
                    std::process::exit(1);
                }
                Err(p) => {
                    println!("replay: unexpected panic: {}", p);
                    println!("VIOLATION property={} replay={}", prop, args[3]);
                    std::process::exit(1);
                }
            }
        }
        "fuzz-artifact" => {
            // vcheck fuzz-artifact <target> <artifact file> : decode a libFuzzer artifact, minimise it
            // (byte-chunk delta debugging under the same failure signature), write the replay file
            let target = args[2].clone();
            let data = std::fs::read(&args[3]).unwrap_or_else(|e| {
                eprintln!("cannot read {}: {}", args[3], e);
                std::process::exit(2)
            });
            let run = |d: &[u8]| -> Option<vharness::fuzzing::FuzzFail> {
                match guarded(|| vharness::fuzzing::run_target(&target, d)) {
                    Ok(Some(Err(f))) => Some(f),
                    Ok(_) => None,
                    Err(p) => Some(vharness::fuzzing::FuzzFail { prop: "C18", sub: "panic", case: serde_json::json!({"bytes": d}), fail: Fail { sig: "panic".into(), detail: p } }),
                }
            };
            let first = match run(&data) {
                Some(f) => f,
                None => {
                    println!("fuzz-artifact: the artifact does not reproduce a violation in this build");
                    std::process::exit(0);
                }
            };
            let sig = (first.prop, first.fail.sig.clone());
            let mut cur = data.clone();
            for gran in [64usize, 16, 8, 4, 2, 1] {
                let mut i = 0;
                while i + gran <= cur.len() {
                    let mut cand = cur.clone();
                    cand.drain(i..i + gran);
                    match run(&cand) {
                        Some(f) if (f.prop, f.fail.sig.clone()) == sig => cur = cand,
                        _ => i += gran,
                    }
                }
            }
            let f = run(&cur).unwrap_or(first);
            let replay_dir = std::env::var("VERIF_REPLAY_DIR").unwrap_or_else(|_| format!("{}/replays", verif_dir));
            let _ = std::fs::create_dir_all(&replay_dir);
            let body = serde_json::json!({
                "property": f.prop, "config": if target == "serde_json" { "serde" } else { "main" }, "sub": f.sub,
                "signature": format!("fuzz/{}/{}", target, f.fail.sig), "case": f.case, "detail": f.fail.detail,
                "found_by": format!("libFuzzer target {}", target), "minimised_input_bytes": cur,
            });
            let path = format!("{}/{}-fuzz_{}-{:08x}.json", replay_dir, f.prop, target, hash_str(&body["case"].to_string()) as u32);
            if std::fs::write(&path, serde_json::to_string_pretty(&body).unwrap()).is_err() {
                std::process::exit(2);
            }
            eprintln!("  [{}] fuzz/{}/{} :: {}", f.prop, target, f.fail.sig, f.fail.detail);
            println!("VIOLATION property={} replay={}", f.prop, path);
            std::process::exit(1);
        }
        _ => usage(),
    }
}
