//! Operations on scanners (histories), their generators, JSON form and the drivers that apply
//! them to the real scanners.
use crate::engine::*;
use crate::impls::*;
use helgoboss_midi::{
    ControlChange14BitMessage, ControlChange14BitMessageScanner, ParameterNumberMessage,
    ParameterNumberMessageScanner, ShortMessage, ShortMessageFactory,
};
use proptest::prelude::*;
use serde_json::{json, Value};

#[derive(Clone, Copy, Debug, PartialEq, Eq, Hash)]
pub enum Op {
    /// feed the short message (status >= 0x80, data bytes <= 127) through implementation `carrier`
    Feed { carrier: u8, s: u8, d1: u8, d2: u8 },
    Reset,
    /// polling scanner only
    Poll(u8),
    /// polling scanner only: advance the (mock) clock by that many nanoseconds
    Advance(u64),
}

impl Op {
    pub fn cc(ch: u8, cn: u8, v: u8) -> Op {
        Op::Feed { carrier: 0, s: 0xB0 | (ch & 15), d1: cn, d2: v }
    }
    pub fn channel(&self) -> Option<u8> {
        match self {
            Op::Feed { s, .. } if *s < 0xF0 => Some(s & 15),
            Op::Poll(c) => Some(*c),
            _ => None,
        }
    }
    pub fn is_cc(&self) -> Option<(u8, u8, u8)> {
        match self {
            Op::Feed { s, d1, d2, .. } if s >> 4 == 0xB => Some((s & 15, *d1, *d2)),
            _ => None,
        }
    }
}

pub fn op_json(op: &Op) -> Value {
    match op {
        Op::Feed { carrier, s, d1, d2 } => {
            if *carrier == 0 {
                json!({"feed": [s, d1, d2]})
            } else {
                json!({"feed": [s, d1, d2], "via": IMPL_NAMES[(*carrier & 3) as usize]})
            }
        }
        Op::Reset => json!("reset"),
        Op::Poll(c) => json!({"poll": c}),
        Op::Advance(n) => json!({"advance_ns": n}),
    }
}

pub fn ops_json(ops: &[Op]) -> Value {
    Value::Array(ops.iter().map(op_json).collect())
}

pub fn op_from(v: &Value) -> Option<Op> {
    if v.as_str() == Some("reset") {
        return Some(Op::Reset);
    }
    if let Some(f) = v.get("feed") {
        let a = f.as_array()?;
        let (s, d1, d2) = (json_u8(a.get(0)?)?, json_u8(a.get(1)?)?, json_u8(a.get(2)?)?);
        if s < 0x80 || d1 > 127 || d2 > 127 {
            return None;
        }
        let carrier = match v.get("via").and_then(|x| x.as_str()) {
            Some(n) => IMPL_NAMES.iter().position(|m| *m == n)? as u8,
            None => 0,
        };
        return Some(Op::Feed { carrier, s, d1, d2 });
    }
    if let Some(c) = v.get("poll") {
        return json_u8(c).filter(|c| *c < 16).map(Op::Poll);
    }
    if let Some(n) = v.get("advance_ns") {
        return json_u64(n).map(Op::Advance);
    }
    None
}

pub fn ops_from(v: &Value) -> Option<Vec<Op>> {
    v.as_array()?.iter().map(op_from).collect()
}

// ---------------------------------------------------------------------------------------------
// Drivers
// ---------------------------------------------------------------------------------------------

struct FeedCc14<'a>(&'a mut ControlChange14BitMessageScanner);
impl<'a> WithMsg for FeedCc14<'a> {
    type Out = Option<ControlChange14BitMessage>;
    fn call<M: ShortMessage + ShortMessageFactory + core::fmt::Debug>(self, m: &M) -> Self::Out {
        api(|| self.0.feed(m))
    }
}
pub fn feed_cc14(sc: &mut ControlChange14BitMessageScanner, carrier: u8, s: u8, d1: u8, d2: u8) -> Option<ControlChange14BitMessage> {
    with_msg(carrier, s, d1, d2, FeedCc14(sc))
}

struct FeedNrpn<'a>(&'a mut ParameterNumberMessageScanner);
impl<'a> WithMsg for FeedNrpn<'a> {
    type Out = Option<ParameterNumberMessage>;
    fn call<M: ShortMessage + ShortMessageFactory + core::fmt::Debug>(self, m: &M) -> Self::Out {
        api(|| self.0.feed(m))
    }
}
pub fn feed_nrpn(sc: &mut ParameterNumberMessageScanner, carrier: u8, s: u8, d1: u8, d2: u8) -> Option<ParameterNumberMessage> {
    with_msg(carrier, s, d1, d2, FeedNrpn(sc))
}

#[cfg(feature = "hm_std")]
pub mod polling {
    use super::*;
    use helgoboss_midi::PollingParameterNumberMessageScanner;
    use std::time::Duration;

    struct FeedPoll<'a>(&'a mut PollingParameterNumberMessageScanner);
    impl<'a> WithMsg for FeedPoll<'a> {
        type Out = [Option<ParameterNumberMessage>; 2];
        fn call<M: ShortMessage + ShortMessageFactory + core::fmt::Debug>(self, m: &M) -> Self::Out {
            api(|| self.0.feed(m))
        }
    }
    pub fn feed_polling(sc: &mut PollingParameterNumberMessageScanner, carrier: u8, s: u8, d1: u8, d2: u8) -> [Option<ParameterNumberMessage>; 2] {
        with_msg(carrier, s, d1, d2, FeedPoll(sc))
    }

    /// sets the mock clock of this thread (no-op without the hook: then only timeouts 0 and MAX
    /// are meaningful and the harness clock never advances)
    #[inline]
    pub fn set_clock(_now: u64) {
        #[cfg(helgoboss_midi_verif)]
        helgoboss_midi::verif_hooks::set_now_nanos(_now);
    }
    #[inline]
    pub fn set_age_cap(_cap: u64) {
        #[cfg(helgoboss_midi_verif)]
        helgoboss_midi::verif_hooks::set_debug_age_cap(_cap);
    }
    pub const HAVE_CLOCK: bool = cfg!(helgoboss_midi_verif);

    /// harness encoding of timeouts: nanoseconds, with three "effectively infinite" sentinels at the
    /// top of the range (the mock clock cannot advance beyond u64::MAX ns, so none of them can elapse)
    pub const T_MAX: u64 = u64::MAX; // Duration::MAX
    pub const T_HUGE_SECS: u64 = u64::MAX - 1; // Duration::from_secs(u64::MAX)
    pub const T_2_POW_64_NS: u64 = u64::MAX - 2; // exactly 2^64 ns (one more than fits a u64 of nanoseconds)

    pub fn timeout_of(ns: u64) -> Duration {
        match ns {
            T_MAX => Duration::MAX,
            T_HUGE_SECS => Duration::from_secs(u64::MAX),
            T_2_POW_64_NS => Duration::new(18_446_744_073, 709_551_616),
            _ => Duration::from_nanos(ns),
        }
    }

    /// a timeout that can never elapse on the harness clock
    pub fn is_infinite(ns: u64) -> bool {
        ns >= T_2_POW_64_NS
    }
}

// ---------------------------------------------------------------------------------------------
// Generators (proptest strategies, built by construction - no filtering)
// ---------------------------------------------------------------------------------------------

#[derive(Clone, Copy, Debug, PartialEq, Eq)]
pub enum Kind {
    Cc14,
    Nrpn,
    Polling,
}

/// A generated history before channel mapping: `sel` picks a channel out of the per-case subset.
#[derive(Clone, Debug)]
pub struct RawHistory {
    pub mask: u16,
    pub palette: [u8; 3],
    /// (N)RPN scanners: channels (bit set) that start with a complete number selection
    pub preselect: u16,
    pub raw: Vec<RawOp>,
}

#[derive(Clone, Copy, Debug)]
pub enum RawOp {
    /// contributing control change: `which` selects the controller from the scanner's set / palette
    /// `link` couples the value to other values of the history (see `concretize`)
    Contrib { sel: u8, which: u8, v: u8, carrier: u8, link: u8 },
    OtherCc { sel: u8, cn: u8, v: u8, carrier: u8 },
    OtherChannelMsg { sel: u8, hi: u8, d1: u8, d2: u8, carrier: u8 },
    System { lo: u8, d1: u8, d2: u8, carrier: u8 },
    Reset,
    Poll { sel: u8 },
    Advance { which: u8, free: u64 },
}

pub const NRPN_CONTROLLERS: [u8; 8] = [98, 99, 100, 101, 38, 6, 96, 97];

/// values that carry a meaning somewhere in the MIDI specifications (registered parameter numbers
/// 0-6 incl. the MPE configuration message, the null function 127, controller numbers that double
/// as data bytes, channel-mode range, centre values)
pub const SPEC_VALUES: [u8; 26] = [0, 1, 2, 3, 4, 5, 6, 7, 10, 15, 16, 31, 32, 38, 63, 64, 96, 97, 98, 99, 100, 101, 120, 121, 126, 127];

fn value_strategy() -> impl Strategy<Value = u8> {
    prop_oneof![
        3 => prop::sample::select(vec![0u8, 1, 127, 64]),
        2 => prop::sample::select(SPEC_VALUES.to_vec()),
        6 => 0u8..128,
    ]
}

fn carrier_strategy() -> impl Strategy<Value = u8> {
    prop_oneof![6 => Just(0u8), 2 => Just(1u8), 1 => Just(2u8), 1 => Just(3u8)]
}

pub struct Weights {
    pub contrib: u32,
    pub other_cc: u32,
    pub other_msg: u32,
    pub system: u32,
    pub reset: u32,
    pub poll: u32,
    pub advance: u32,
}

pub fn default_weights(kind: Kind) -> Weights {
    match kind {
        Kind::Polling => Weights { contrib: 60, other_cc: 6, other_msg: 6, system: 2, reset: 2, poll: 14, advance: 10 },
        _ => Weights { contrib: 72, other_cc: 10, other_msg: 10, system: 4, reset: 4, poll: 0, advance: 0 },
    }
}

pub fn raw_op_strategy(w: &Weights) -> BoxedStrategy<RawOp> {
    let mut v: Vec<(u32, BoxedStrategy<RawOp>)> = Vec::new();
    v.push((w.contrib, (any::<u8>(), any::<u8>(), value_strategy(), carrier_strategy(), any::<u8>()).prop_map(|(sel, which, v, carrier, link)| RawOp::Contrib { sel, which, v, carrier, link }).boxed()));
    if w.other_cc > 0 {
        v.push((w.other_cc, (any::<u8>(), prop_oneof![3 => 0u8..128, 2 => prop::sample::select(SPEC_VALUES.to_vec())], value_strategy(), carrier_strategy()).prop_map(|(sel, cn, v, carrier)| RawOp::OtherCc { sel, cn, v, carrier }).boxed()));
    }
    if w.other_msg > 0 {
        v.push((w.other_msg, (any::<u8>(), 0u8..7, 0u8..128, 0u8..128, carrier_strategy()).prop_map(|(sel, hi, d1, d2, carrier)| RawOp::OtherChannelMsg { sel, hi, d1, d2, carrier }).boxed()));
    }
    if w.system > 0 {
        v.push((w.system, (0u8..16, 0u8..128, 0u8..128, carrier_strategy()).prop_map(|(lo, d1, d2, carrier)| RawOp::System { lo, d1, d2, carrier }).boxed()));
    }
    if w.reset > 0 {
        v.push((w.reset, Just(RawOp::Reset).boxed()));
    }
    if w.poll > 0 {
        v.push((w.poll, any::<u8>().prop_map(|sel| RawOp::Poll { sel }).boxed()));
    }
    if w.advance > 0 {
        v.push((w.advance, (0u8..11, any::<u64>()).prop_map(|(which, free)| RawOp::Advance { which, free }).boxed()));
    }
    proptest::strategy::Union::new_weighted(v).boxed()
}

pub fn history_strategy(kind: Kind, max_len: usize) -> impl Strategy<Value = RawHistory> {
    history_strategy_w(max_len, default_weights(kind))
}

pub fn history_strategy_w(max_len: usize, w: Weights) -> impl Strategy<Value = RawHistory> {
    (
        prop_oneof![
            3 => (0u32..16).prop_map(|b| 1u16 << b),          // single channel
            3 => (0u32..16, 0u32..16).prop_map(|(a, b)| (1u16 << a) | (1u16 << b)),
            2 => (0u32..8).prop_map(|b| (1u16 << b) | (1u16 << (b + 8))), // channels i and i+8
            3 => 1u16..=u16::MAX,
            1 => Just(u16::MAX),
        ],
        [0u8..32, 0u8..32, 0u8..32],
        prop_oneof![2 => Just(0u16), 3 => any::<u16>(), 3 => Just(u16::MAX)],
        prop::collection::vec(raw_op_strategy(&w), 0..=max_len),
    )
        .prop_map(|(mask, palette, preselect, raw)| RawHistory { mask, palette, preselect, raw })
}

pub fn subset_of(mask: u16) -> Vec<u8> {
    let m = if mask == 0 { 1 } else { mask };
    (0..16u8).filter(|b| m & (1 << b) != 0).collect()
}

fn pick(subset: &[u8], sel: u8) -> u8 {
    subset[(sel as usize * subset.len()) >> 8]
}

/// Maps a raw history to concrete operations. `timeout_ns` parametrises the time steps
/// (below / at / above the timeout).
pub fn concretize(kind: Kind, h: &RawHistory, timeout_ns: u64) -> Vec<Op> {
    let subset = subset_of(h.mask);
    let mut out = Vec::with_capacity(h.raw.len() + 4);
    let mut recent: Vec<u8> = Vec::with_capacity(8);
    let mut total_advance: u64 = 0;
    if kind != Kind::Cc14 {
        for (i, &ch) in subset.iter().enumerate() {
            if h.preselect & (1 << ch) != 0 {
                let reg = (h.palette[0] as usize + i) % 2 == 0;
                // half of the preselected numbers are small registered-parameter style numbers (0, k)
                let (nm, nl) = if (h.palette[0] as usize + i) % 4 < 2 {
                    (0, SPEC_VALUES[(h.palette[2] as usize + i) % 9])
                } else {
                    (h.palette[1] * 4 + (i as u8 & 3), h.palette[2] * 4 + 1)
                };
                out.push(Op::cc(ch, if reg { 101 } else { 99 }, nm));
                out.push(Op::cc(ch, if reg { 100 } else { 98 }, nl));
                recent.push(nm);
                recent.push(nl);
            }
        }
    }
    for r in &h.raw {
        let op = match *r {
            RawOp::Contrib { sel, which, v, carrier, link } => {
                let ch = pick(&subset, sel);
                // value coupling (about one op in four): relations between values of a history -
                // equal to a recently used value, to the channel number, complement / neighbour of
                // a recent value - are otherwise vanishingly rare under independent draws
                let v = match link % 16 {
                    0 | 1 if !recent.is_empty() => recent[(link as usize / 16) % recent.len()],
                    2 => ch,
                    3 if !recent.is_empty() => recent[(link as usize / 16) % recent.len()] ^ 1,
                    _ => v,
                };
                recent.push(v);
                if recent.len() > 6 {
                    recent.remove(0);
                }
                let cn = match kind {
                    Kind::Cc14 => {
                        // palette of up to three MSB controllers; LSB = MSB + 32; sometimes any 0..64
                        let w = which as usize;
                        if w % 16 == 15 {
                            (which >> 2) & 63
                        } else {
                            let base = h.palette[(w / 2) % 3] & 31;
                            if w % 2 == 0 { base } else { base + 32 }
                        }
                    }
                    // value bytes dominate so that a selected number sees many data entries
                    _ => match which {
                        0..=89 => 6,
                        90..=139 => 38,
                        140..=152 => 96,
                        153..=165 => 97,
                        166..=188 => 98,
                        189..=210 => 99,
                        211..=233 => 100,
                        _ => 101,
                    },
                };
                Op::Feed { carrier, s: 0xB0 | ch, d1: cn, d2: v }
            }
            RawOp::OtherCc { sel, cn, v, carrier } => Op::Feed { carrier, s: 0xB0 | pick(&subset, sel), d1: cn, d2: v },
            RawOp::OtherChannelMsg { sel, hi, d1, d2, carrier } => {
                // any channel message type (incl. control change again)
                Op::Feed { carrier, s: ((8 + hi) << 4) | pick(&subset, sel), d1, d2 }
            }
            RawOp::System { lo, d1, d2, carrier } => Op::Feed { carrier, s: 0xF0 | lo, d1, d2 },
            RawOp::Reset => Op::Reset,
            RawOp::Poll { sel } => {
                if kind == Kind::Polling {
                    Op::Poll(pick(&subset, sel))
                } else {
                    continue;
                }
            }
            RawOp::Advance { which, free } => {
                if kind != Kind::Polling {
                    continue;
                }
                let t = timeout_ns;
                // (an effectively infinite timeout gives no deadline to aim at)
                let t = if t >= u64::MAX - 2 { 1_000 } else { t };
                const TWO_POW_32_S: u64 = 4_294_967_296_000_000_000; // 2^32 s in ns (~136 years)
                let d = match which % 11 {
                    0 => 0,
                    1 => 1,
                    2 => t.saturating_sub(1),
                    3 => t,
                    4 => t.saturating_add(1),
                    5 => t.saturating_mul(2),
                    6 => free % (t.saturating_mul(2).max(2)),
                    7 => free % 1_000_000_007,
                    // rarely: jumps across 32-bit boundaries of seconds / milliseconds (compact time stamps)
                    8 => if free % 8 == 0 { TWO_POW_32_S } else { free % 1_000_000_007 },
                    9 => if free % 8 == 0 { TWO_POW_32_S - 1 - (free >> 8) % 3 } else { 4_294_967_296_000_000 + free % 3 },
                    _ => if free % 8 == 0 { TWO_POW_32_S.saturating_add(t) } else { 4_294_967_296 + free % 3 },
                };
                // keep the harness clock far from u64 saturation (a saturated mock clock stands still,
                // which no real clock does): once 2^62 ns have been spent, only small steps follow
                let d = if total_advance.saturating_add(d) > (1u64 << 62) { d % 1_000_000_007 } else { d };
                total_advance = total_advance.saturating_add(d);
                Op::Advance(d)
            }
        };
        out.push(op);
    }
    out
}
