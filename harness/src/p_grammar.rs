//! C12: the polling (N)RPN scanner decodes every sentence of its documented sequence grammar.
//! Sentences are *constructed* (never filtered) by a per-channel simulation that also computes the
//! grammar's denotation: the exact expected output of every call.
use crate::bfs::*;
use crate::engine::*;
use crate::ensure;
use crate::ops::polling::*;
use crate::ops::*;
use crate::p_nrpn::{ctor_report, ref_encode_pn, value_max};
use crate::p_polling::{new_scanner, obs2, timeout_from, TIMEOUTS};
use crate::refmodel::*;
use helgoboss_midi::PollingParameterNumberMessageScanner;
use proptest::prelude::*;
use serde_json::{json, Value};

#[derive(Clone, Copy, Debug, PartialEq, Eq, Hash)]
pub enum GStep {
    /// start the next item on the selected channel (or emit the second event of an open item)
    Item { sel: u8, kind: u8, a: u16, b: u8, flag: bool },
    Poll { sel: u8 },
    Advance { which: u8, free: u64 },
    Noise { sel: u8, k: u8, x: u8, y: u8 },
}

#[derive(Clone, Copy, Debug, PartialEq, Eq, Hash)]
enum GCtx {
    NotStarted,
    AfterSelect,
    After14 { m: u8 },
    AfterOther,
}

#[derive(Clone, Copy, Debug, PartialEq, Eq, Hash)]
enum Second {
    NumByte { cn: u8, v: u8, msb: u8, lsb: u8, registered: bool },
    L { m: u8, l: u8 },
    M { l: u8, m: u8, t_l: u64 },
}

#[derive(Clone, Copy, Debug, PartialEq, Eq, Hash)]
struct GCh {
    ctx: GCtx,
    msb: u8,
    lsb: u8,
    registered: bool,
    open_m: Option<(u8, u64)>,
    second: Option<Second>,
}

impl Default for GCh {
    fn default() -> Self {
        GCh { ctx: GCtx::NotStarted, msb: 0, lsb: 0, registered: false, open_m: None, second: None }
    }
}

#[derive(Clone, Copy, Debug, PartialEq, Eq)]
pub enum Expected {
    Feed([Option<PnReport>; 2]),
    Poll(Option<PnReport>),
    Nothing,
}

#[derive(Clone, Copy, Default, Debug)]
pub struct GStats {
    pub units: u32,
    pub lone_m_flush_by_message: u32,
    pub lone_m_flush_by_poll: u32,
    pub further_l: u32,
    pub pairs_ml: u32,
    pub pairs_lm: u32,
    pub incdec: u32,
    pub early_polls: u32,
    pub late_polls: u32,
    pub selections: u32,
}

#[derive(Clone)]
pub struct GSim {
    ch: [GCh; 16],
    pub now: u64,
    pub timeout: u64,
    pub stats: GStats,
}

impl GSim {
    pub fn new(timeout: u64) -> GSim {
        GSim { ch: [GCh::default(); 16], now: 0, timeout, stats: GStats::default() }
    }

    fn seven(&self, c: u8, v: u8) -> PnReport {
        let g = &self.ch[c as usize];
        PnReport { channel: c, number: 128 * g.msb as u16 + g.lsb as u16, value: v as u16, registered: g.registered, is_14_bit: false, kind: 0 }
    }
    fn fourteen(&self, c: u8, m: u8, l: u8) -> PnReport {
        let g = &self.ch[c as usize];
        PnReport { channel: c, number: 128 * g.msb as u16 + g.lsb as u16, value: 128 * m as u16 + l as u16, registered: g.registered, is_14_bit: true, kind: 0 }
    }

    /// flush of an open lone MSB by a contributing message of its channel
    fn flush_by_message(&mut self, c: u8) -> Option<PnReport> {
        let open = self.ch[c as usize].open_m.take();
        open.map(|(v, _)| {
            self.stats.lone_m_flush_by_message += 1;
            self.seven(c, v)
        })
    }

    fn late(&self, t: u64) -> bool {
        self.now.saturating_sub(t) >= self.timeout
    }

    /// Applies one generated step; returns the operation to execute and its exact expected result,
    /// or None when the step is not applicable here (e.g. a late poll inside an open pair).
    pub fn apply(&mut self, subset: &[u8], step: &GStep) -> Option<(Op, Expected)> {
        let pick = |sel: u8| subset[(sel as usize * subset.len()) >> 8];
        match *step {
            GStep::Advance { which, free } => {
                if !HAVE_CLOCK {
                    return None;
                }
                let t = self.timeout;
                let d = match which % 8 {
                    0 => 0,
                    1 => 1,
                    2 => t.saturating_sub(1),
                    3 => t,
                    4 => t.saturating_add(1),
                    5 => t.saturating_mul(2),
                    6 => free % t.saturating_mul(2).max(2),
                    _ => free % 1_000_000_007,
                };
                // (keep the clock far from u64 saturation, see ops::concretize)
                let d = if self.now.saturating_add(d) > (1u64 << 62) { d % 1_000_000_007 } else { d };
                self.now = self.now.saturating_add(d);
                Some((Op::Advance(d), Expected::Nothing))
            }
            GStep::Noise { sel, k, x, y } => {
                let c = pick(sel);
                let op = match k % 4 {
                    0 => Op::Feed { carrier: k >> 6, s: 0x90 | c, d1: x & 127, d2: y & 127 },
                    1 => {
                        let mut cn = x & 127;
                        if NRPN_CONTROLLERS.contains(&cn) {
                            cn = 7;
                        }
                        Op::Feed { carrier: k >> 6, s: 0xB0 | c, d1: cn, d2: y & 127 }
                    }
                    2 => Op::Feed { carrier: k >> 6, s: 0xF0 | (x & 15), d1: y & 127, d2: 0 },
                    _ => Op::Feed { carrier: k >> 6, s: 0xE0 | c, d1: x & 127, d2: y & 127 },
                };
                Some((op, Expected::Feed([None, None])))
            }
            GStep::Poll { sel } => {
                let c = pick(sel);
                let g = self.ch[c as usize];
                // inside an open pair only early polls are part of the grammar
                match g.second {
                    Some(Second::L { .. }) => {
                        let (_, t) = g.open_m.expect("open pair has a pending MSB");
                        if self.late(t) {
                            return None;
                        }
                        self.stats.early_polls += 1;
                        return Some((Op::Poll(c), Expected::Poll(None)));
                    }
                    Some(Second::M { t_l, .. }) => {
                        if self.late(t_l) {
                            return None;
                        }
                        self.stats.early_polls += 1;
                        return Some((Op::Poll(c), Expected::Poll(None)));
                    }
                    _ => {}
                }
                match g.open_m {
                    Some((v, t)) if self.late(t) => {
                        self.ch[c as usize].open_m = None;
                        self.stats.late_polls += 1;
                        self.stats.lone_m_flush_by_poll += 1;
                        Some((Op::Poll(c), Expected::Poll(Some(self.seven(c, v)))))
                    }
                    Some(_) => {
                        self.stats.early_polls += 1;
                        Some((Op::Poll(c), Expected::Poll(None)))
                    }
                    None => Some((Op::Poll(c), Expected::Poll(None))),
                }
            }
            GStep::Item { sel, kind, a, b, flag } => {
                let c = pick(sel);
                let s = 0xB0 | c;
                let g = self.ch[c as usize];
                // second event of an open two-event item
                if let Some(sec) = g.second {
                    self.ch[c as usize].second = None;
                    return Some(match sec {
                        Second::NumByte { cn, v, msb, lsb, registered } => {
                            let gm = &mut self.ch[c as usize];
                            gm.msb = msb;
                            gm.lsb = lsb;
                            gm.registered = registered;
                            gm.ctx = GCtx::AfterSelect;
                            (Op::cc(c, cn, v), Expected::Feed([None, None]))
                        }
                        Second::L { m, l } => {
                            self.ch[c as usize].open_m = None;
                            self.ch[c as usize].ctx = GCtx::After14 { m };
                            self.stats.pairs_ml += 1;
                            (Op::cc(c, 38, l), Expected::Feed([Some(self.fourteen(c, m, l)), None]))
                        }
                        Second::M { l, m, .. } => {
                            self.ch[c as usize].ctx = GCtx::After14 { m };
                            self.stats.pairs_lm += 1;
                            (Op::cc(c, 6, m), Expected::Feed([Some(self.fourteen(c, m, l)), None]))
                        }
                    });
                }
                // which items may start here (weights by repetition)
                #[derive(Clone, Copy, PartialEq)]
                enum K {
                    Select,
                    LoneM,
                    PairML,
                    PairLM,
                    FurtherL,
                    IncDec,
                }
                let allowed: &[K] = match g.ctx {
                    GCtx::NotStarted => &[K::Select],
                    GCtx::AfterSelect => &[K::Select, K::LoneM, K::LoneM, K::PairML, K::PairML, K::PairLM, K::PairLM, K::IncDec],
                    GCtx::After14 { .. } => &[K::Select, K::LoneM, K::LoneM, K::PairML, K::PairML, K::FurtherL, K::FurtherL, K::IncDec],
                    GCtx::AfterOther => &[K::Select, K::LoneM, K::LoneM, K::LoneM, K::PairML, K::PairML, K::IncDec, K::IncDec],
                };
                let k = allowed[(kind as usize * allowed.len()) >> 8];
                self.stats.units += 1;
                let _ = s;
                Some(match k {
                    K::Select => {
                        // both number bytes of one kind, in either order
                        self.stats.selections += 1;
                        let registered = b & 1 == 1;
                        let (msb, lsb) = ((a >> 7) as u8 & 127, (a & 127) as u8);
                        let (cn_m, cn_l) = if registered { (101, 100) } else { (99, 98) };
                        let (first, second) = if flag { ((cn_l, lsb), (cn_m, msb)) } else { ((cn_m, msb), (cn_l, lsb)) };
                        let flushed = self.flush_by_message(c);
                        let gm = &mut self.ch[c as usize];
                        gm.second = Some(Second::NumByte { cn: second.0, v: second.1, msb, lsb, registered });
                        (Op::cc(c, first.0, first.1), Expected::Feed([flushed, None]))
                    }
                    K::LoneM => {
                        let v = (a & 127) as u8;
                        let flushed = self.flush_by_message(c);
                        let now = self.now;
                        let gm = &mut self.ch[c as usize];
                        gm.open_m = Some((v, now));
                        gm.ctx = GCtx::AfterOther;
                        (Op::cc(c, 6, v), Expected::Feed([flushed, None]))
                    }
                    K::PairML => {
                        let (m, l) = ((a & 127) as u8, b & 127);
                        let flushed = self.flush_by_message(c);
                        let now = self.now;
                        let gm = &mut self.ch[c as usize];
                        gm.open_m = Some((m, now));
                        gm.second = Some(Second::L { m, l });
                        (Op::cc(c, 6, m), Expected::Feed([flushed, None]))
                    }
                    K::PairLM => {
                        let (m, l) = ((a & 127) as u8, b & 127);
                        let now = self.now;
                        self.ch[c as usize].second = Some(Second::M { l, m, t_l: now });
                        (Op::cc(c, 38, l), Expected::Feed([None, None]))
                    }
                    K::FurtherL => {
                        let m = match g.ctx {
                            GCtx::After14 { m } => m,
                            _ => unreachable!(),
                        };
                        let l = b & 127;
                        self.stats.further_l += 1;
                        (Op::cc(c, 38, l), Expected::Feed([Some(self.fourteen(c, m, l)), None]))
                    }
                    K::IncDec => {
                        let v = b & 127;
                        let inc = a & 1 == 0;
                        self.stats.incdec += 1;
                        let flushed = self.flush_by_message(c);
                        let gsnap = self.ch[c as usize];
                        let id = PnReport { channel: c, number: 128 * gsnap.msb as u16 + gsnap.lsb as u16, value: v as u16, registered: gsnap.registered, is_14_bit: false, kind: if inc { 1 } else { 2 } };
                        self.ch[c as usize].ctx = GCtx::AfterOther;
                        let exp = match flushed {
                            Some(f) => [Some(f), Some(id)],
                            None => [Some(id), None],
                        };
                        (Op::cc(c, if inc { 96 } else { 97 }, v), Expected::Feed(exp))
                    }
                })
            }
        }
    }

    /// events that complete the sentence: second events of open items, then (finite timeout) a
    /// time step of one timeout and a poll per channel (flushes the last lone MSB)
    pub fn epilogue(&mut self, subset: &[u8]) -> Vec<(Op, Expected)> {
        let mut out = Vec::new();
        for (i, &c) in subset.iter().enumerate() {
            if self.ch[c as usize].second.is_some() {
                let sel = ((i * 256 + 128) / subset.len()) as u8;
                if let Some(e) = self.apply(subset, &GStep::Item { sel, kind: 0, a: 0, b: 0, flag: false }) {
                    out.push(e);
                }
            }
        }
        if HAVE_CLOCK {
            let d = self.timeout;
            self.now = self.now.saturating_add(d);
            out.push((Op::Advance(d), Expected::Nothing));
        }
        for (i, _) in subset.iter().enumerate() {
            let sel = ((i * 256 + 128) / subset.len()) as u8;
            if let Some(e) = self.apply(subset, &GStep::Poll { sel }) {
                out.push(e);
            }
        }
        out
    }

    fn key_words(&self, c: u8, cap: u64) -> [u64; 3] {
        let g = &self.ch[c as usize];
        let age = |t: u64| self.now.saturating_sub(t).min(cap);
        let open = g.open_m.map_or(u64::MAX, |(v, t)| v as u64 | age(t) << 8);
        let sec = match g.second {
            None => u64::MAX,
            Some(Second::NumByte { cn, v, msb, lsb, registered }) => 1 | (cn as u64) << 8 | (v as u64) << 16 | (msb as u64) << 24 | (lsb as u64) << 32 | (registered as u64) << 40,
            Some(Second::L { m, l }) => 2 | (m as u64) << 8 | (l as u64) << 16,
            Some(Second::M { l, m, t_l }) => 3 | (m as u64) << 8 | (l as u64) << 16 | age(t_l) << 24,
        };
        let ctx = match g.ctx {
            GCtx::NotStarted => 0u64,
            GCtx::AfterSelect => 1,
            GCtx::After14 { m } => 2 | (m as u64) << 8,
            GCtx::AfterOther => 3,
        };
        [ctx | (g.msb as u64) << 16 | (g.lsb as u64) << 24 | (g.registered as u64) << 32, open, sec]
    }
}

// ---------------------------------------------------------------------------------------------
// Executing a constructed sentence
// ---------------------------------------------------------------------------------------------

fn exec(sc: &mut PollingParameterNumberMessageScanner, now: u64, op: &Op, want: &Expected, idx: usize) -> Result<(), Fail> {
    set_clock(now);
    match (*op, want) {
        (Op::Feed { carrier, s, d1, d2 }, Expected::Feed(w)) => {
            let got = obs2(&feed_polling(sc, carrier, s, d1, d2));
            if got != *w {
                let what = if s >> 4 == 0xB {
                    match d1 {
                        6 => "data_entry_msb",
                        38 => "data_entry_lsb",
                        96 | 97 => "inc_dec",
                        98..=101 => "number_byte",
                        _ => "noise",
                    }
                } else {
                    "noise"
                };
                return fail(format!("sentence/feed/{}", what), format!("event #{} {:?}: feed returned {:?}, the grammar's denotation is {:?}", idx, op, got, w));
            }
        }
        (Op::Poll(c), Expected::Poll(w)) => {
            let got = api(|| sc.poll(h_ch(c))).as_ref().map(observe_pn);
            if got != *w {
                return fail(
                    format!("sentence/poll/{}", if w.is_some() { "lone_msb_not_flushed" } else { "unexpected_report" }),
                    format!("event #{} poll({}) at t={}: returned {:?}, the grammar's denotation is {:?}", idx, c, now, got, w),
                );
            }
        }
        (Op::Advance(_), _) => {}
        _ => return fail("harness/event_mismatch", format!("{:?} vs {:?}", op, want)),
    }
    Ok(())
}

#[derive(Clone, Debug)]
pub struct RawSentence {
    pub mask: u16,
    pub timeout_idx: u8,
    pub steps: Vec<GStep>,
}

pub fn sentence_timeout(s: &RawSentence) -> u64 {
    if HAVE_CLOCK { [TIMEOUTS[0], TIMEOUTS[1], TIMEOUTS[2], TIMEOUTS[3], TIMEOUTS[7]][s.timeout_idx as usize % 5] } else { 0 }
}

/// constructs the sentence and its denotation
pub fn build_sentence(s: &RawSentence) -> (Vec<(Op, Expected, u64)>, GStats) {
    let subset = subset_of(s.mask);
    let mut sim = GSim::new(sentence_timeout(s));
    let mut out = Vec::new();
    for st in &s.steps {
        if let Some((op, e)) = sim.apply(&subset, st) {
            out.push((op, e, sim.now));
        }
    }
    for (op, e) in sim.epilogue(&subset) {
        // `now` after an Advance is the new time; for other events it is unchanged
        out.push((op, e, 0));
    }
    // recompute the time stamps of the epilogue
    let mut now = 0u64;
    for ev in out.iter_mut() {
        if let Op::Advance(d) = ev.0 {
            now = now.saturating_add(d);
        }
        ev.2 = now;
    }
    (out, sim.stats)
}

fn expected_json(e: &Expected) -> Value {
    let r = |m: &Option<PnReport>| match m {
        None => Value::Null,
        Some(p) => json!({"channel": p.channel, "number": p.number, "value": p.value, "registered": p.registered, "is_14_bit": p.is_14_bit, "data_kind": p.kind}),
    };
    match e {
        Expected::Feed(a) => json!({"feed_returns": [r(&a[0]), r(&a[1])]}),
        Expected::Poll(p) => json!({"poll_returns": r(p)}),
        Expected::Nothing => Value::Null,
    }
}

fn report_from(v: &Value) -> Option<Option<PnReport>> {
    if v.is_null() {
        return Some(None);
    }
    Some(Some(PnReport {
        channel: json_u8(&v["channel"])?,
        number: json_u64(&v["number"])? as u16,
        value: json_u64(&v["value"])? as u16,
        registered: v["registered"].as_bool()?,
        is_14_bit: v["is_14_bit"].as_bool()?,
        kind: json_u8(&v["data_kind"])?,
    }))
}

fn expected_from(v: &Value) -> Option<Expected> {
    if v.is_null() {
        return Some(Expected::Nothing);
    }
    if let Some(a) = v.get("feed_returns") {
        return Some(Expected::Feed([report_from(&a[0])?, report_from(&a[1])?]));
    }
    if let Some(p) = v.get("poll_returns") {
        return Some(Expected::Poll(report_from(p)?));
    }
    None
}

pub fn events_json(timeout: u64, events: &[(Op, Expected, u64)]) -> Value {
    json!({"kind": "sentence", "timeout_ns": timeout,
           "events": events.iter().map(|(op, e, _)| json!({"op": op_json(op), "expect": expected_json(e)})).collect::<Vec<_>>()})
}

pub fn run_events(timeout: u64, events: &[(Op, Expected, u64)]) -> Result<(), Fail> {
    let mut sc = new_scanner(timeout);
    set_clock(0);
    // per-channel intended vs reported lists (the statement's "exactly the intended ones, each once, in order")
    let mut intended: Vec<Vec<PnReport>> = vec![Vec::new(); 16];
    for (_, e, _) in events {
        match e {
            Expected::Feed(a) => {
                for m in a.iter().flatten() {
                    intended[m.channel as usize].push(*m);
                }
            }
            Expected::Poll(Some(m)) => intended[m.channel as usize].push(*m),
            _ => {}
        }
    }
    for (i, (op, e, now)) in events.iter().enumerate() {
        exec(&mut sc, *now, op, e, i)?;
    }
    let _ = intended;
    Ok(())
}

fn sentence_outcome(s: &RawSentence) -> Result<ROutcome, Fail> {
    let (events, st) = build_sentence(s);
    run_events(sentence_timeout(s), &events)?;
    let mut classes = Vec::new();
    if st.lone_m_flush_by_message > 0 {
        classes.push("lone_msb_flushed_by_message");
    }
    if st.lone_m_flush_by_poll > 0 {
        classes.push("lone_msb_flushed_by_poll");
    }
    if st.further_l > 0 {
        classes.push("further_lsb");
    }
    if st.pairs_lm > 0 {
        classes.push("pair_lsb_msb");
    }
    if st.pairs_ml > 0 {
        classes.push("pair_msb_lsb");
    }
    if st.incdec > 0 {
        classes.push("inc_dec");
    }
    if st.early_polls > 0 {
        classes.push("early_poll");
    }
    if st.selections >= 2 {
        classes.push("re_selection");
    }
    let nontrivial = st.units >= 2 && (st.lone_m_flush_by_message + st.lone_m_flush_by_poll > 0 || st.further_l > 0);
    Ok(ROutcome { nontrivial, classes, hash: hash64(&(s.mask, sentence_timeout(s), &s.steps)) })
}

fn gstep_strategy() -> impl Strategy<Value = GStep> {
    prop_oneof![
        60 => (any::<u8>(), any::<u8>(), prop_oneof![5 => 0u16..16384, 2 => 0u16..8, 1 => Just(16383u16), 1 => Just(127u16), 1 => (0u16..16).prop_map(|x| x << 7 | 6)], any::<u8>(), any::<bool>()).prop_map(|(sel, kind, a, b, flag)| GStep::Item { sel, kind, a, b, flag }),
        18 => any::<u8>().prop_map(|sel| GStep::Poll { sel }),
        14 => (0u8..8, any::<u64>()).prop_map(|(which, free)| GStep::Advance { which, free }),
        8 => (any::<u8>(), any::<u8>(), any::<u8>(), any::<u8>()).prop_map(|(sel, k, x, y)| GStep::Noise { sel, k, x, y }),
    ]
}

fn sentence_strategy(max_steps: usize) -> impl Strategy<Value = RawSentence> {
    (
        prop_oneof![
            4 => (0u32..16).prop_map(|b| 1u16 << b),
            3 => (0u32..16, 0u32..16).prop_map(|(a, b)| (1u16 << a) | (1u16 << b)),
            2 => 1u16..=u16::MAX,
            1 => Just(u16::MAX),
        ],
        0u8..5,
        prop::collection::vec(gstep_strategy(), 0..=max_steps),
    )
        .prop_map(|(mask, timeout_idx, mut steps)| {
            // value coupling: about a quarter of the items re-use a value of an earlier item (or its
            // neighbour), so that relations between values of a sentence are not vanishingly rare
            let mut recent: Vec<u8> = Vec::new();
            for st in steps.iter_mut() {
                if let GStep::Item { sel, kind, a, b, .. } = st {
                    let link = sel.wrapping_mul(31) ^ kind.rotate_left(3);
                    if !recent.is_empty() {
                        let r = recent[(link as usize / 8) % recent.len()];
                        match link % 8 {
                            0 => *b = r,
                            1 => *a = (*a & !127) | r as u16,
                            2 => *a = (r as u16) << 7 | (*a & 127),
                            3 => *b = r ^ 1,
                            _ => {}
                        }
                    }
                    recent.push((*a & 127) as u8);
                    recent.push(*b & 127);
                    recent.push((*a >> 7) as u8 & 127);
                    while recent.len() > 9 {
                        recent.remove(0);
                    }
                }
            }
            RawSentence { mask, timeout_idx, steps }
        })
}

// ---------------------------------------------------------------------------------------------
// Style B: all sentences over an abstract alphabet on one channel, to a fixpoint
// ---------------------------------------------------------------------------------------------

#[derive(Clone)]
struct BState {
    sc: PollingParameterNumberMessageScanner,
    sim: GSim,
}

fn bfs_sentences(ctx: &Ctx, name: &str, ch: u8, timeout: u64, values: &[u8]) -> Sub {
    let subset = [ch];
    let mut alphabet: Vec<GStep> = Vec::new();
    // selections: both kinds, both byte orders, numbers built from the abstract values
    for &m in values.iter().take(2) {
        for &l in values.iter().take(2) {
            for reg in [0u8, 1] {
                for flag in [false, true] {
                    alphabet.push(GStep::Item { sel: 0, kind: 0, a: 128 * m as u16 + l as u16, b: reg, flag });
                }
            }
        }
    }
    // value items: `kind` selects the item via the same monotone mapping as in generated sentences
    for kind in [40u8, 110, 180, 240] {
        for &a in values {
            for &b in values {
                alphabet.push(GStep::Item { sel: 0, kind, a: a as u16, b, flag: false });
            }
        }
    }
    alphabet.push(GStep::Poll { sel: 0 });
    alphabet.push(GStep::Noise { sel: 0, k: 1, x: 7, y: 3 });
    if timeout > 0 && HAVE_CLOCK {
        alphabet.push(GStep::Advance { which: 1, free: 0 }); // 1 ns
        if timeout > 2 {
            alphabet.push(GStep::Advance { which: 2, free: 0 }); // T - 1
        }
        alphabet.push(GStep::Advance { which: 3, free: 0 }); // T
    }
    let cap = 2 * timeout + 2;
    let t0 = std::time::Instant::now();
    let step = |s: &BState, i: usize| -> Result<Option<BState>, Fail> {
        let mut n = s.clone();
        match n.sim.apply(&subset, &alphabet[i]) {
            None => Ok(None),
            Some((op, e)) => {
                exec(&mut n.sc, n.sim.now, &op, &e, 0)?;
                Ok(Some(n))
            }
        }
    };
    let key = |s: &BState| -> Key {
        set_clock(s.sim.now);
        set_age_cap(cap);
        let k = key_of(&s.sc, &s.sim.key_words(ch, cap));
        set_age_cap(u64::MAX);
        k
    };
    let out = bfs(ctx, BState { sc: new_scanner(timeout), sim: GSim::new(timeout) }, alphabet.len(), step, key, 400_000);
    let mut sub = Sub::new(
        name,
        &format!(
            "all sentences of the documented grammar of every length on channel {} over values {:?} (both kinds, both selection orders, every unit form, poll / time-step / noise decorations at every position) with timeout {} ns: fixpoint of scanner state x grammar-simulation state",
            ch, values, timeout
        ),
        "non-trivial = transition taken from a non-initial state",
        out.complete && out.failure.is_none(),
    );
    sub.evals = out.transitions;
    sub.states = out.states.len() as u64;
    sub.transitions = out.transitions;
    sub.nontrivial = out.transitions.saturating_sub(alphabet.len() as u64);
    sub.wall_ms = t0.elapsed().as_millis() as u64;
    sub.class_n("bfs_depth", out.max_depth as u64);
    if !out.complete && out.failure.is_none() {
        sub.notes.push("state cap reached before the fixpoint".into());
    }
    // rebuild a path as concrete events
    let rebuild = |path: &[usize]| -> Vec<(Op, Expected, u64)> {
        let mut sim = GSim::new(timeout);
        let mut ev = Vec::new();
        for i in path {
            if let Some((op, e)) = sim.apply(&subset, &alphabet[*i]) {
                ev.push((op, e, sim.now));
            }
        }
        ev
    };
    let last = out.states.len() - 1;
    sub.samples.push(events_json(timeout, &rebuild(&out.path_to(last))));
    if let Some((path, f)) = out.failure {
        let ev = rebuild(&path);
        sub.record(f, || events_json(timeout, &ev), ev.len() as u128);
    }
    sub
}

// ---------------------------------------------------------------------------------------------
// "Consequently": encode, feed, poll after the timeout - whatever the scanner was fed before
// ---------------------------------------------------------------------------------------------

#[derive(Clone, Debug)]
pub struct EncCase {
    pub prior: RawHistory,
    pub timeout_idx: u8,
    pub msg: PnReport,
    pub lsb_first: bool,
    pub chan_sel: u8,
    pub carrier: u8,
}

fn enc_timeout(c: &EncCase) -> u64 {
    if HAVE_CLOCK { [TIMEOUTS[0], TIMEOUTS[1], TIMEOUTS[2], TIMEOUTS[3], TIMEOUTS[7]][c.timeout_idx as usize % 5] } else { 0 }
}

fn enc_parts(c: &EncCase) -> (Vec<Op>, PnReport) {
    let prior = concretize(Kind::Polling, &c.prior, enc_timeout(c));
    let subset = subset_of(c.prior.mask);
    let mut r = c.msg;
    if c.chan_sel % 4 != 0 {
        r.channel = subset[c.chan_sel as usize % subset.len()];
    }
    (prior, r)
}

pub fn check_encode_feed_poll(timeout: u64, prior: &[Op], r: &PnReport, lsb_first: bool, carrier: u8) -> Result<bool, Fail> {
    let mut sc = new_scanner(timeout);
    let mut now = crate::p_polling::clock_start(hash64(&(prior, r.number)));
    set_clock(now);
    let mut had_traffic = false;
    for op in prior {
        match *op {
            Op::Feed { carrier, s, d1, d2 } => {
                set_clock(now);
                let _ = feed_polling(&mut sc, carrier, s, d1, d2);
                if s == 0xB0 | r.channel && matches!(d1, 6 | 38) {
                    had_traffic = true;
                }
            }
            Op::Poll(c) => {
                set_clock(now);
                let _ = api(|| sc.poll(h_ch(c)));
            }
            Op::Advance(d) => {
                if HAVE_CLOCK {
                    now = now.saturating_add(d);
                }
            }
            Op::Reset => {
                api(|| sc.reset());
                had_traffic = false;
            }
        }
    }
    // the encoding: for carrier 0 what the crate's own encoder produces into RawShortMessage,
    // otherwise the sequence the property describes (fed through the other implementations)
    if now > (1u64 << 63) {
        // a clock this close to saturation cannot "let the timeout pass" any more: not a valid case
        return Ok(false);
    }
    let enc: Vec<(u8, u8, u8)> = if carrier == 0 {
        use helgoboss_midi::{DataEntryByteOrder, RawShortMessage, ShortMessage};
        let msg = build_pn(r);
        let a: [Option<RawShortMessage>; 4] = api(|| msg.to_short_messages(if lsb_first { DataEntryByteOrder::LsbFirst } else { DataEntryByteOrder::MsbFirst }));
        a.iter().flatten().map(|m| { let b = m.to_bytes(); (b.0, b.1.get(), b.2.get()) }).collect()
    } else {
        ref_encode_pn(r, lsb_first)
    };
    ensure!(!enc.is_empty(), "encode_feed_poll/empty_encoding", "{:?}", r);
    let mut reported: Vec<PnReport> = Vec::new();
    for (i, (s, cn, v)) in enc.iter().enumerate() {
        set_clock(now);
        let out = obs2(&feed_polling(&mut sc, carrier, *s, *cn, *v));
        if i == 0 {
            // at most the flush of a value still pending from earlier traffic
            ensure!(out[1].is_none() && out[0].map_or(true, |m| !m.is_14_bit && m.kind == 0 && m.channel == r.channel), "encode_feed_poll/first_message_output", "first message of the encoding returned {:?}", out);
        } else {
            for m in out.iter().flatten() {
                reported.push(*m);
            }
        }
    }
    if HAVE_CLOCK {
        now = now.saturating_add(timeout);
    }
    set_clock(now);
    if let Some(m) = api(|| sc.poll(h_ch(r.channel))).as_ref().map(observe_pn) {
        reported.push(m);
    }
    ensure!(
        reported == vec![*r],
        format!("encode_feed_poll/{}{}", if reported.is_empty() { "not_reported" } else { "wrong_reports" }, if r.is_14_bit { if lsb_first { "/14_bit_lsb_first" } else { "/14_bit_msb_first" } } else if r.kind == 0 { "/7_bit" } else { "/inc_dec" }),
        "encoding of {:?} ({}): reported {:?} after the first message, expected exactly the original", r, if lsb_first { "LSB first" } else { "MSB first" }, reported
    );
    // a further poll returns nothing
    let again = api(|| sc.poll(h_ch(r.channel)));
    ensure!(again.is_none(), "encode_feed_poll/reported_again", "a second poll returned {:?}", again);
    Ok(had_traffic)
}

fn report_strategy() -> impl Strategy<Value = PnReport> {
    (0usize..8, prop_oneof![4 => 0u8..16, 1 => Just(0u8), 1 => Just(15u8)], prop_oneof![6 => 0u16..16384, 2 => 0u16..8, 1 => Just(16383u16), 1 => Just(127u16), 1 => Just(128u16)], 0u16..16384).prop_map(|(c, ch, number, v)| ctor_report(c, ch, number, v % (value_max(c) + 1)))
}

pub fn run_c12(ctx: &Ctx) -> Report {
    let mut subs = Vec::new();
    // style R: multi-channel sentences
    {
        let cases = ctx.pick(3_000u64, 150_000, 1_000_000);
        let max_steps = ctx.pick(40usize, 80, 300);
        let proto = Sub::new(
            "sentences",
            "seeded random sentences of the documented grammar on 1-16 interleaved channels (selections in either order and of both kinds, lone MSB, MSB+LSB, LSB+MSB directly after a selection, further LSB after a 14-bit value, inc/dec), decorated with early polls anywhere, late polls at unit boundaries only, monotone time steps, non-contributing messages; timeouts {0, 1 ns, 1 ms, 10 s}; the exact expected result of every call is the grammar's denotation",
            "non-trivial = >= 2 units and a lone-MSB flush (by message or poll) or a further LSB; distinct by hash",
            false,
        );
        let mut sub = par_proptest(
            ctx,
            &proto,
            cases,
            || sentence_strategy(max_steps),
            |s: &RawSentence| events_json(sentence_timeout(s), &build_sentence(s).0),
            sentence_outcome,
        );
        for (c, f) in [("lone_msb_flushed_by_message", 200), ("lone_msb_flushed_by_poll", 100), ("further_lsb", 100), ("pair_lsb_msb", 100), ("pair_msb_lsb", 200), ("inc_dec", 200), ("re_selection", 200)] {
            sub.floor(c, f);
        }
        if HAVE_CLOCK {
            sub.floor("early_poll", 50);
        }
        subs.push(sub);
    }
    // style B
    {
        let v2: &[u8] = &[0, 127];
        let v3: &[u8] = &[0, 1, 127];
        if HAVE_CLOCK {
            subs.push(bfs_sentences(ctx, "bfs_sentences_timeout_3ns", 2, 3, if ctx.thorough() { v3 } else { v2 }));
        }
        if HAVE_CLOCK {
            subs.push(bfs_sentences(ctx, "bfs_sentences_timeout_0", 13, 0, if ctx.reduced { v2 } else { v3 }));
        }
    }
    // encode / feed / poll
    {
        let cases = ctx.pick(3_000u64, 150_000, 1_000_000);
        let max_len = ctx.pick(24usize, 48, 200);
        let proto = Sub::new(
            "encode_feed_poll",
            "random (N)RPN message x both byte orders x prior state reached by an arbitrary random history (incl. malformed traffic, polls, time) x timeouts {0, 1 ns, 1 ms, 10 s}: feed the encoding, advance by the timeout, poll",
            "non-trivial = the message's channel had data-entry traffic before (something may be pending); distinct by hash",
            false,
        );
        let mut sub = par_proptest(
            ctx,
            &proto,
            cases,
            || {
                (history_strategy(Kind::Polling, max_len), 0u8..5, report_strategy(), any::<bool>(), any::<u8>(), 0u8..4)
                    .prop_map(|(prior, timeout_idx, msg, lsb_first, chan_sel, carrier)| EncCase { prior, timeout_idx, msg, lsb_first, chan_sel, carrier })
            },
            |c: &EncCase| {
                let (prior, r) = enc_parts(c);
                json!({"kind": "encode_feed_poll", "timeout_ns": enc_timeout(c), "prior": ops_json(&prior), "lsb_first": c.lsb_first, "via": c.carrier,
                       "message": {"channel": r.channel, "number": r.number, "value": r.value, "registered": r.registered, "is_14_bit": r.is_14_bit, "data_kind": r.kind}})
            },
            |c: &EncCase| {
                let (prior, r) = enc_parts(c);
                let nt = check_encode_feed_poll(enc_timeout(c), &prior, &r, c.lsb_first, c.carrier)?;
                Ok(ROutcome { nontrivial: nt, classes: if nt { vec!["channel_had_data_entry_traffic"] } else { vec![] }, hash: hash64(&(&prior, r, c.lsb_first, enc_timeout(c))) })
            },
        );
        sub.floor("channel_had_data_entry_traffic", 200);
        subs.push(sub);
    }
    Report {
        subs,
        rule: "sentences are constructed by a per-channel grammar simulation that also yields the denotation (exact expected output of every feed and poll); style R over 1-16 interleaved channels and full values, style B to a fixpoint on one channel over abstract values; plus encode -> feed -> poll-after-timeout for arbitrary prior states".into(),
        assumptions: vec![
            "only documented forms are generated: LSB+MSB only directly after a selection, a further LSB only after a 14-bit value, late polls only at unit boundaries (inside an open pair a poll is generated only while the pending byte is younger than the timeout)".into(),
            "time only advances; mock clock under --cfg helgoboss_midi_verif".into(),
        ],
    }
}

pub fn replay_c12(_sub: &str, case: &Value) -> Option<CheckResult> {
    match case["kind"].as_str()? {
        "sentence" => {
            let timeout = timeout_from(&case["timeout_ns"])?;
            if !HAVE_CLOCK && timeout != 0 {
                return None;
            }
            let mut events = Vec::new();
            let mut now = 0u64;
            for e in case["events"].as_array()? {
                let op = op_from(&e["op"])?;
                if let Op::Advance(d) = op {
                    now = now.saturating_add(d);
                }
                events.push((op, expected_from(&e["expect"])?, now));
            }
            Some(run_events(timeout, &events).map(|_| true))
        }
        "encode_feed_poll" => {
            let timeout = timeout_from(&case["timeout_ns"])?;
            if !HAVE_CLOCK && timeout != 0 {
                return None;
            }
            let prior = ops_from(&case["prior"])?;
            let m = &case["message"];
            let r = PnReport {
                channel: json_u8(&m["channel"]).filter(|c| *c < 16)?,
                number: json_u64(&m["number"]).filter(|c| *c < 16384)? as u16,
                value: json_u64(&m["value"]).filter(|c| *c < 16384)? as u16,
                registered: m["registered"].as_bool()?,
                is_14_bit: m["is_14_bit"].as_bool()?,
                kind: json_u8(&m["data_kind"]).filter(|c| *c < 3)?,
            };
            if (!r.is_14_bit && r.value > 127) || (r.is_14_bit && r.kind != 0) {
                return None;
            }
            Some(check_encode_feed_poll(timeout, &prior, &r, case["lsb_first"].as_bool()?, json_u8(&case["via"]).unwrap_or(0) & 3))
        }
        _ => None,
    }
}
