//! C06: factory constructors (named, generic, test_util shorthands) build exactly the message
//! they describe.
use crate::engine::*;
use crate::impls::*;
use crate::p_short::{check_msg_is, frame_by_index, Impl, Pre3};
use crate::refmodel::*;
use crate::{ensure, ensure_eq, for_impl};
use helgoboss_midi::{test_util, RawShortMessage, ShortMessage, ShortMessageFactory, ShortMessageType, StructuredShortMessage, U7};
use serde_json::{json, Value};

// ---------------------------------------------------------------------------------------------
// Named constructors
// ---------------------------------------------------------------------------------------------

pub const NAMED: [&str; 19] = [
    "note_off", "note_on", "polyphonic_key_pressure", "control_change", // 0-3: (ch, a, b)
    "program_change", "channel_pressure",                               // 4-5: (ch, a)
    "pitch_bend_change",                                                // 6: (ch, v14)
    "time_code_quarter_frame",                                          // 7: (frame index)
    "song_position_pointer",                                            // 8: (v14)
    "song_select",                                                      // 9: (a)
    "system_exclusive_start", "tune_request", "system_exclusive_end", "timing_clock", "start", "continue", "stop", "active_sensing", "system_reset", // 10-18
];
const NULLARY_STATUS: [u8; 9] = [0xF0, 0xF6, 0xF7, 0xF8, 0xFA, 0xFB, 0xFC, 0xFE, 0xFF];

/// size of the argument domain of a named constructor
pub fn named_domain(c: usize) -> u64 {
    match c {
        0..=3 => 16 * 128 * 128,
        4 | 5 => 16 * 128,
        6 => 16 * 16384,
        7 => 120,
        8 => 16384,
        9 => 128,
        _ => 1,
    }
}

/// expected bytes from the constructor's description (arithmetic on plain integers)
fn named_expected(c: usize, i: u64) -> (u8, u8, u8) {
    match c {
        0..=3 => {
            let ty = [0x80u8, 0x90, 0xA0, 0xB0][c];
            (ty | (i / 16384) as u8, ((i / 128) % 128) as u8, (i % 128) as u8)
        }
        4 | 5 => ([0xC0u8, 0xD0][c - 4] | (i / 128) as u8, (i % 128) as u8, 0),
        6 => {
            let v = i % 16384;
            (0xE0 | (i / 16384) as u8, (v & 127) as u8, (v >> 7) as u8)
        }
        7 => {
            let b = if i < 112 { ((i / 16) << 4 | (i % 16)) as u8 } else { 0x70 | (i - 112) as u8 };
            (0xF1, b, 0)
        }
        8 => (0xF2, (i & 127) as u8, (i >> 7) as u8),
        9 => (0xF3, i as u8, 0),
        _ => (NULLARY_STATUS[c - 10], 0, 0),
    }
}

fn named_build<M: Impl>(c: usize, i: u64) -> M {
    let ch = || h_ch(if c <= 3 { (i / 16384) as u8 } else if c <= 5 { (i / 128) as u8 } else { (i / 16384) as u8 });
    let a = || ((i / 128) % 128) as u8;
    let b = || (i % 128) as u8;
    match c {
        0 => api(|| M::note_off(ch(), h_key(a()), h_u7(b()))),
        1 => api(|| M::note_on(ch(), h_key(a()), h_u7(b()))),
        2 => api(|| M::polyphonic_key_pressure(ch(), h_key(a()), h_u7(b()))),
        3 => api(|| M::control_change(ch(), h_cn(a()), h_u7(b()))),
        4 => api(|| M::program_change(ch(), h_u7(b()))),
        5 => api(|| M::channel_pressure(ch(), h_u7(b()))),
        6 => api(|| M::pitch_bend_change(ch(), h_u14((i % 16384) as u16))),
        7 => api(|| M::time_code_quarter_frame(frame_by_index(i))),
        8 => api(|| M::song_position_pointer(h_u14(i as u16))),
        9 => api(|| M::song_select(h_u7(i as u8))),
        10 => api(|| M::system_exclusive_start()),
        11 => api(|| M::tune_request()),
        12 => api(|| M::system_exclusive_end()),
        13 => api(|| M::timing_clock()),
        14 => api(|| M::start()),
        15 => api(|| M::r#continue()),
        16 => api(|| M::stop()),
        17 => api(|| M::active_sensing()),
        _ => api(|| M::system_reset()),
    }
}

fn check_named_impl<M: Impl>(c: usize, i: u64) -> CheckResult {
    let m: M = named_build(c, i);
    let (s, d1, d2) = named_expected(c, i);
    let pre = Pre3(NAMED[c], IMPL_NAMES[M::IDX as usize], None);
    check_msg_is(&m, s, d1, d2, M::IDX == STRUCTURED, &pre)?;
    Ok(d1 | d2 != 0)
}

fn check_named(c: usize, i: u64) -> CheckResult {
    let mut nt = false;
    for k in 0..4u8 {
        nt |= for_impl!(k, check_named_impl(c, i))?;
    }
    check_concrete_paths_named(c, i)?;
    Ok(nt)
}

// ---------------------------------------------------------------------------------------------
// Generic constructors
// ---------------------------------------------------------------------------------------------

/// category from the MIDI 1.0 table: 0 channel, 1 system common, 2 system real time, 3 sysex start
fn category(type_byte: u8) -> u8 {
    match type_byte {
        0x80..=0xEF => 0,
        0xF0 => 3,
        0xF1..=0xF7 => 1,
        _ => 2,
    }
}

fn check_generic_impl<M: Impl>(which: u8, ti: usize, ch: u8, d1: u8, d2: u8) -> CheckResult {
    let (tb, ty) = TYPE_TABLE[ti];
    let name = ["channel_message", "system_common_message", "system_real_time_message"][which as usize];
    let pre = Pre3(name, IMPL_NAMES[M::IDX as usize], Some(tb));
    let should_panic = category(tb) != which;
    let build = || -> M {
        match which {
            0 => M::channel_message(ty, h_ch(ch), h_u7(d1), h_u7(d2)),
            1 => M::system_common_message(ty, h_u7(d1), h_u7(d2)),
            _ => M::system_real_time_message(ty),
        }
    };
    if should_panic {
        match expect_panic(build) {
            Ok(_) => Ok(true),
            Err(m) => fail(format!("{}/no_panic_for_wrong_category", pre), format!("{}({:?}, ..) returned {:?}", name, ty, m)),
        }
    } else {
        let m = api(build);
        let (s, e1, e2) = match which {
            0 => (tb | ch, d1, d2),
            1 => (tb, d1, d2),
            _ => (tb, 0, 0),
        };
        check_msg_is(&m, s, e1, e2, M::IDX == STRUCTURED, &pre)?;
        ensure_eq!(api(|| m.r#type()), ty, format!("{}/type_is_given_type", pre));
        Ok(d1 | d2 != 0)
    }
}

fn check_generic(which: u8, ti: usize, ch: u8, d1: u8, d2: u8) -> CheckResult {
    let mut nt = false;
    for k in 0..4u8 {
        nt |= for_impl!(k, check_generic_impl(which, ti, ch, d1, d2))?;
    }
    check_concrete_paths_generic(which, ti, ch, d1, d2)?;
    Ok(nt)
}


// ---------------------------------------------------------------------------------------------
// Concrete-path calls: `RawShortMessage::note_on(..)` written against the concrete type, so that
// inherent associated functions that shadow the trait's functions are what gets called. They must
// build the same message (or panic in the same cases) as the trait function.
// ---------------------------------------------------------------------------------------------

macro_rules! concrete_factory {
    ($named:ident, $generic:ident, $t:ty) => {
        fn $named(c: usize, i: u64) -> $t {
            let ch = || h_ch(if c <= 3 { (i / 16384) as u8 } else if c <= 5 { (i / 128) as u8 } else { (i / 16384) as u8 });
            let a = || ((i / 128) % 128) as u8;
            let b = || (i % 128) as u8;
            match c {
                0 => api(|| <$t>::note_off(ch(), h_key(a()), h_u7(b()))),
                1 => api(|| <$t>::note_on(ch(), h_key(a()), h_u7(b()))),
                2 => api(|| <$t>::polyphonic_key_pressure(ch(), h_key(a()), h_u7(b()))),
                3 => api(|| <$t>::control_change(ch(), h_cn(a()), h_u7(b()))),
                4 => api(|| <$t>::program_change(ch(), h_u7(b()))),
                5 => api(|| <$t>::channel_pressure(ch(), h_u7(b()))),
                6 => api(|| <$t>::pitch_bend_change(ch(), h_u14((i % 16384) as u16))),
                7 => api(|| <$t>::time_code_quarter_frame(frame_by_index(i))),
                8 => api(|| <$t>::song_position_pointer(h_u14(i as u16))),
                9 => api(|| <$t>::song_select(h_u7(i as u8))),
                10 => api(|| <$t>::system_exclusive_start()),
                11 => api(|| <$t>::tune_request()),
                12 => api(|| <$t>::system_exclusive_end()),
                13 => api(|| <$t>::timing_clock()),
                14 => api(|| <$t>::start()),
                15 => api(|| <$t>::r#continue()),
                16 => api(|| <$t>::stop()),
                17 => api(|| <$t>::active_sensing()),
                _ => api(|| <$t>::system_reset()),
            }
        }
        /// Ok(bytes) or Err(()) if the call panicked
        fn $generic(which: u8, ty: ShortMessageType, ch: u8, d1: u8, d2: u8) -> Result<(u8, u8, u8), ()> {
            let r = expect_panic(|| match which {
                0 => <$t>::channel_message(ty, h_ch(ch), h_u7(d1), h_u7(d2)),
                1 => <$t>::system_common_message(ty, h_u7(d1), h_u7(d2)),
                _ => <$t>::system_real_time_message(ty),
            });
            match r {
                Ok(_) => Err(()),
                Err(m) => {
                    let b = m.to_bytes();
                    Ok((b.0, b.1.get(), b.2.get()))
                }
            }
        }
    };
}
concrete_factory!(named_concrete_raw, generic_concrete_raw, RawShortMessage);
concrete_factory!(named_concrete_structured, generic_concrete_structured, StructuredShortMessage);

fn check_concrete_paths_named(c: usize, i: u64) -> Result<(), Fail> {
    let (s, d1, d2) = named_expected(c, i);
    let r = named_concrete_raw(c, i);
    let b = r.to_bytes();
    ensure!((b.0, b.1.get(), b.2.get()) == (s, d1, d2), format!("{}/Raw/concrete_path_differs_from_trait", NAMED[c]), "RawShortMessage::{}(..) (concrete path) = {:?}, expected bytes {:?}", NAMED[c], r, (s, d1, d2));
    let st = named_concrete_structured(c, i);
    let b = st.to_bytes();
    ensure!((b.0, b.1.get(), b.2.get()) == ref_canon(s, d1, d2), format!("{}/Structured/concrete_path_differs_from_trait", NAMED[c]), "StructuredShortMessage::{}(..) (concrete path) = {:?}", NAMED[c], st);
    Ok(())
}

fn check_concrete_paths_generic(which: u8, ti: usize, ch: u8, d1: u8, d2: u8) -> Result<(), Fail> {
    let (tb, ty) = TYPE_TABLE[ti];
    let name = ["channel_message", "system_common_message", "system_real_time_message"][which as usize];
    let should_panic = category(tb) != which;
    let want = match which {
        0 => (tb | ch, d1, d2),
        1 => (tb, d1, d2),
        _ => (tb, 0, 0),
    };
    let r = generic_concrete_raw(which, ty, ch, d1, d2);
    ensure!(r.is_err() == should_panic, format!("{}/Raw/concrete_path/{}", name, if should_panic { "no_panic_for_wrong_category" } else { "panics_for_right_category" }), "RawShortMessage::{}({:?}, ..) (concrete path): {:?}", name, ty, r);
    if let Ok(b) = r {
        ensure!(b == want, format!("{}/Raw/concrete_path_differs_from_trait", name), "{:?} vs {:?}", b, want);
    }
    let r = generic_concrete_structured(which, ty, ch, d1, d2);
    ensure!(r.is_err() == should_panic, format!("{}/Structured/concrete_path/{}", name, if should_panic { "no_panic_for_wrong_category" } else { "panics_for_right_category" }), "StructuredShortMessage::{}({:?}, ..) (concrete path): {:?}", name, ty, r);
    if let Ok(b) = r {
        ensure!(b == ref_canon(want.0, want.1, want.2), format!("{}/Structured/concrete_path_differs_from_trait", name), "{:?} vs {:?}", b, want);
    }
    Ok(())
}

// ---------------------------------------------------------------------------------------------
// test_util shorthands (RawShortMessage and composite messages from primitives)
// ---------------------------------------------------------------------------------------------

#[derive(Clone, Copy, PartialEq, Eq, Debug)]
pub enum HelperOut {
    Int(u16),
    Msg(u8, u8, u8),
    Cc14(u8, u8, u16),
    Pn(PnReport),
}

pub struct Helper {
    pub name: &'static str,
    /// number of arguments, per argument: (width of the primitive = number of values, largest valid value)
    pub args: &'static [(u32, u32)],
}

pub const HELPERS: [Helper; 21] = [
    Helper { name: "u4", args: &[(256, 15)] },
    Helper { name: "u7", args: &[(256, 127)] },
    Helper { name: "u14", args: &[(65536, 16383)] },
    Helper { name: "channel", args: &[(256, 15)] },
    Helper { name: "key_number", args: &[(256, 127)] },
    Helper { name: "controller_number", args: &[(256, 127)] },
    Helper { name: "short", args: &[(256, 255), (256, 127), (256, 127)] }, // status additionally needs >= 0x80
    Helper { name: "note_on", args: &[(256, 15), (256, 127), (256, 127)] },
    Helper { name: "note_off", args: &[(256, 15), (256, 127), (256, 127)] },
    Helper { name: "control_change", args: &[(256, 15), (256, 127), (256, 127)] },
    Helper { name: "polyphonic_key_pressure", args: &[(256, 15), (256, 127), (256, 127)] },
    Helper { name: "program_change", args: &[(256, 15), (256, 127)] },
    Helper { name: "channel_pressure", args: &[(256, 15), (256, 127)] },
    Helper { name: "pitch_bend_change", args: &[(256, 15), (65536, 16383)] },
    Helper { name: "song_position_pointer", args: &[(65536, 16383)] },
    Helper { name: "song_select", args: &[(256, 127)] },
    Helper { name: "control_change_14_bit", args: &[(256, 15), (256, 31), (65536, 16383)] },
    Helper { name: "nrpn", args: &[(256, 15), (65536, 16383), (256, 127)] },
    Helper { name: "nrpn_14_bit", args: &[(256, 15), (65536, 16383), (65536, 16383)] },
    Helper { name: "rpn", args: &[(256, 15), (65536, 16383), (256, 127)] },
    Helper { name: "rpn_14_bit", args: &[(256, 15), (65536, 16383), (65536, 16383)] },
];

fn obs_raw(m: RawShortMessage) -> HelperOut {
    let b = m.to_bytes();
    HelperOut::Msg(b.0, b.1.get(), b.2.get())
}

fn helper_call(h: usize, a: [u32; 3]) -> HelperOut {
    let (x, y, z) = (a[0], a[1], a[2]);
    match h {
        0 => HelperOut::Int(test_util::u4(x as u8).get() as u16),
        1 => HelperOut::Int(test_util::u7(x as u8).get() as u16),
        2 => HelperOut::Int(test_util::u14(x as u16).get()),
        3 => HelperOut::Int(test_util::channel(x as u8).get() as u16),
        4 => HelperOut::Int(test_util::key_number(x as u8).get() as u16),
        5 => HelperOut::Int(test_util::controller_number(x as u8).get() as u16),
        6 => obs_raw(test_util::short(x as u8, y as u8, z as u8)),
        7 => obs_raw(test_util::note_on(x as u8, y as u8, z as u8)),
        8 => obs_raw(test_util::note_off(x as u8, y as u8, z as u8)),
        9 => obs_raw(test_util::control_change(x as u8, y as u8, z as u8)),
        10 => obs_raw(test_util::polyphonic_key_pressure(x as u8, y as u8, z as u8)),
        11 => obs_raw(test_util::program_change(x as u8, y as u8)),
        12 => obs_raw(test_util::channel_pressure(x as u8, y as u8)),
        13 => obs_raw(test_util::pitch_bend_change(x as u8, y as u16)),
        14 => obs_raw(test_util::song_position_pointer(x as u16)),
        15 => obs_raw(test_util::song_select(x as u8)),
        16 => {
            let m = test_util::control_change_14_bit(x as u8, y as u8, z as u16);
            let o = observe_cc14(&m);
            HelperOut::Cc14(o.0, o.1, o.2)
        }
        17 => HelperOut::Pn(observe_pn(&test_util::nrpn(x as u8, y as u16, z as u8))),
        18 => HelperOut::Pn(observe_pn(&test_util::nrpn_14_bit(x as u8, y as u16, z as u16))),
        19 => HelperOut::Pn(observe_pn(&test_util::rpn(x as u8, y as u16, z as u8))),
        _ => HelperOut::Pn(observe_pn(&test_util::rpn_14_bit(x as u8, y as u16, z as u16))),
    }
}

fn helper_expected(h: usize, a: [u32; 3]) -> Option<HelperOut> {
    let hp = &HELPERS[h];
    for (i, (_, lim)) in hp.args.iter().enumerate() {
        if a[i] > *lim {
            return None;
        }
    }
    let (x, y, z) = (a[0], a[1], a[2]);
    Some(match h {
        0..=5 => HelperOut::Int(x as u16),
        6 => {
            if x < 0x80 {
                return None;
            }
            HelperOut::Msg(x as u8, y as u8, z as u8)
        }
        7 => HelperOut::Msg(0x90 | x as u8, y as u8, z as u8),
        8 => HelperOut::Msg(0x80 | x as u8, y as u8, z as u8),
        9 => HelperOut::Msg(0xB0 | x as u8, y as u8, z as u8),
        10 => HelperOut::Msg(0xA0 | x as u8, y as u8, z as u8),
        11 => HelperOut::Msg(0xC0 | x as u8, y as u8, 0),
        12 => HelperOut::Msg(0xD0 | x as u8, y as u8, 0),
        13 => HelperOut::Msg(0xE0 | x as u8, (y & 127) as u8, (y >> 7) as u8),
        14 => HelperOut::Msg(0xF2, (x & 127) as u8, (x >> 7) as u8),
        15 => HelperOut::Msg(0xF3, x as u8, 0),
        16 => HelperOut::Cc14(x as u8, y as u8, z as u16),
        17 | 19 => HelperOut::Pn(PnReport { channel: x as u8, number: y as u16, value: z as u16, registered: h == 19, is_14_bit: false, kind: 0 }),
        _ => HelperOut::Pn(PnReport { channel: x as u8, number: y as u16, value: z as u16, registered: h == 20, is_14_bit: true, kind: 0 }),
    })
}

fn check_helper(h: usize, a: [u32; 3]) -> CheckResult {
    let name = HELPERS[h].name;
    match helper_expected(h, a) {
        None => match expect_panic(|| helper_call(h, a)) {
            Ok(_) => Ok(true),
            Err(v) => fail(format!("shorthand/{}/no_panic_for_out_of_range", name), format!("test_util::{}{:?} returned {:?}", name, &a[..HELPERS[h].args.len()], v)),
        },
        Some(want) => {
            let got = api(|| helper_call(h, a));
            ensure!(got == want, format!("shorthand/{}/value", name), "test_util::{}{:?} = {:?}, expected {:?}", name, &a[..HELPERS[h].args.len()], got, want);
            Ok(a.iter().any(|v| *v != 0))
        }
    }
}

fn nullary_helpers() -> CheckResult {
    let list: [(&str, RawShortMessage, u8); 9] = [
        ("system_exclusive_start", test_util::system_exclusive_start(), 0xF0),
        ("tune_request", test_util::tune_request(), 0xF6),
        ("system_exclusive_end", test_util::system_exclusive_end(), 0xF7),
        ("timing_clock", test_util::timing_clock(), 0xF8),
        ("start", test_util::start(), 0xFA),
        ("continue", test_util::r#continue(), 0xFB),
        ("stop", test_util::stop(), 0xFC),
        ("active_sensing", test_util::active_sensing(), 0xFE),
        ("system_reset", test_util::system_reset(), 0xFF),
    ];
    for (n, m, s) in list {
        ensure!(obs_raw(m) == HelperOut::Msg(s, 0, 0), format!("shorthand/{}/value", n), "{:?}", m);
    }
    for i in 0..120 {
        let m = api(|| test_util::time_code_quarter_frame(frame_by_index(i)));
        let e = named_expected(7, i);
        ensure!(obs_raw(m) == HelperOut::Msg(e.0, e.1, e.2), "shorthand/time_code_quarter_frame/value", "{:?}", m);
    }
    Ok(true)
}

/// argument tuples of a helper: full sweep of each dimension with the others at boundary values,
/// plus the cross product of boundary values; `full` = complete product when it has <= 2^24 members
fn helper_cases(h: usize, thorough: bool) -> Vec<[u32; 3]> {
    let hp = &HELPERS[h];
    let n = hp.args.len();
    let mut out: Vec<[u32; 3]> = Vec::new();
    let bounds = |i: usize| -> Vec<u32> {
        let (w, lim) = hp.args[i];
        let mut b = vec![0, 1, lim.saturating_sub(1), lim, lim + 1, w - 1, w / 2];
        if h == 6 && i == 0 {
            b.extend([0x7F, 0x80, 0xF0]);
        }
        b.retain(|v| *v < w);
        b.sort();
        b.dedup();
        b
    };
    // cross product of boundary values
    let bs: Vec<Vec<u32>> = (0..n).map(bounds).collect();
    let mut idx = vec![0usize; n];
    loop {
        let mut a = [0u32; 3];
        for i in 0..n {
            a[i] = bs[i][idx[i]];
        }
        out.push(a);
        let mut k = 0;
        while k < n {
            idx[k] += 1;
            if idx[k] < bs[k].len() {
                break;
            }
            idx[k] = 0;
            k += 1;
        }
        if k == n {
            break;
        }
    }
    // sweep of each dimension, others at {0 (0x80 for a status byte), limit}: every value for
    // 8-bit arguments; for 16-bit arguments every value up to limit + 300, every 61st value above
    // and all wrap-around aliases k * 256 + {0, 1, 127, 255} (thorough: every value)
    for d in 0..n {
        let (w, lim) = hp.args[d];
        let mut vals: Vec<u32> = Vec::new();
        if w <= 256 || thorough {
            vals.extend(0..w);
        } else {
            vals.extend(0..=(lim + 300).min(w - 1));
            vals.extend((lim..w).step_by(61));
            for k in 1..(w / 256) {
                for v in [0u32, 1, 127, 255] {
                    vals.push(k * 256 + v);
                }
            }
            vals.push(w - 1);
        }
        let corners: u32 = if thorough { 1u32 << (n - 1) } else { 2 };
        for v in vals {
            for corner in 0..corners {
                let mut a = [0u32; 3];
                let mut bit = 0;
                for i in 0..n {
                    if i == d {
                        a[i] = v;
                    } else {
                        let l = hp.args[i].1;
                        let hi = if thorough { corner & (1 << bit) != 0 } else { corner == 1 };
                        a[i] = if hi { l } else if h == 6 && i == 0 { 0x80 } else { 0 };
                        bit += 1;
                    }
                }
                out.push(a);
            }
        }
    }
    out.sort();
    out.dedup();
    out
}

// ---------------------------------------------------------------------------------------------
// Run
// ---------------------------------------------------------------------------------------------

pub fn run_c06(ctx: &Ctx) -> Report {
    let mut subs = Vec::new();
    let stride = ctx.pick(7u64, 1, 1);
    for c in 0..NAMED.len() {
        let n = named_domain(c);
        let st = if n >= 1024 { stride } else { 1 };
        let proto = Sub::new(
            &format!("named_{}", NAMED[c]),
            &format!("{}: all {} argument tuples x 4 implementations (stride {})", NAMED[c], n, st),
            "non-trivial = a non-zero data argument",
            st == 1,
        );
        let cnt = (n + st - 1) / st;
        let mut sub = par_enum(ctx, &proto, cnt, |sub, j| {
            let i = j * st;
            sub.eval(i as u128, || json!({"ctor": NAMED[c], "index": i, "expected_bytes": format!("{:?}", named_expected(c, i))}), || check_named(c, i));
        });
        if n == 1 {
            // nullary: count as one distinct non-trivial case (the constructor itself)
            sub.nontrivial = sub.nontrivial.max(1);
        }
        sub.add_samples(cnt, ctx.seed, |j| json!({"ctor": NAMED[c], "index": j * st, "expected_bytes": format!("{:?}", named_expected(c, j * st))}));
        sub.samples.truncate(2);
        subs.push(sub);
    }
    // generic constructors
    for which in 0..3u8 {
        let name = ["generic_channel_message", "generic_system_common_message", "generic_system_real_time_message"][which as usize];
        let proto = Sub::new(
            name,
            "all 23 types: correct category -> all argument tuples (16 x 128 x 128 / 128 x 128 / none); wrong category -> boundary arguments (must panic); x 4 implementations",
            "non-trivial = wrong-category call, or a non-zero data argument",
            stride == 1,
        );
        // case list: (type index, ch, d1, d2)
        let mut blocks: Vec<(usize, u64)> = Vec::new(); // (type index, count)
        for ti in 0..23 {
            let ok = category(TYPE_TABLE[ti].0) == which;
            let cnt = if ok {
                match which {
                    0 => 16 * 128 * 128,
                    1 => 128 * 128,
                    _ => 1,
                }
            } else {
                8
            };
            blocks.push((ti, cnt));
        }
        let total: u64 = blocks.iter().map(|b| b.1).sum();
        let decode = move |mut i: u64| -> (usize, u8, u8, u8) {
            for (ti, cnt) in blocks.iter() {
                if i < *cnt {
                    let ok = category(TYPE_TABLE[*ti].0) == which;
                    return if ok {
                        match which {
                            0 => (*ti, (i / 16384) as u8, ((i / 128) % 128) as u8, (i % 128) as u8),
                            1 => (*ti, 0, (i / 128) as u8, (i % 128) as u8),
                            _ => (*ti, 0, 0, 0),
                        }
                    } else {
                        (*ti, if i & 1 == 1 { 15 } else { 0 }, if i & 2 == 2 { 127 } else { 0 }, if i & 4 == 4 { 127 } else { 0 })
                    };
                }
                i -= *cnt;
            }
            unreachable!()
        };
        let cnt = (total + stride - 1) / stride;
        let mut sub = par_enum(ctx, &proto, cnt, |sub, j| {
            let (ti, ch, d1, d2) = decode((j * stride).min(total - 1));
            sub.eval(
                ((d1 != 0) as u128 + (d2 != 0) as u128 + (ch != 0) as u128) << 32 | (ti as u128) << 24 | (ch as u128) << 16 | (d1 as u128) << 8 | d2 as u128,
                || json!({"generic": which, "type_byte": TYPE_TABLE[ti].0, "channel": ch, "data1": d1, "data2": d2}),
                || check_generic(which, ti, ch, d1, d2),
            );
        });
        sub.add_samples(cnt, ctx.seed, |j| {
            let (ti, ch, d1, d2) = decode((j * stride).min(total - 1));
            json!({"generic": name, "type_byte": TYPE_TABLE[ti].0, "channel": ch, "data1": d1, "data2": d2})
        });
        sub.samples.truncate(3);
        subs.push(sub);
    }
    // shorthands
    for h in 0..HELPERS.len() {
        let total: u64 = HELPERS[h].args.iter().map(|(w, _)| *w as u64).product();
        let nargs = HELPERS[h].args.len();
        let full = nargs == 1 || (ctx.thorough() && total <= (1 << 24));
        let cases = if full { Vec::new() } else { helper_cases(h, ctx.thorough()) };
        let w: Vec<u64> = (0..3).map(|i| if i < nargs { HELPERS[h].args[i].0 as u64 } else { 1 }).collect();
        let ncases = if full { total } else { cases.len() as u64 };
        let get = |i: u64| -> [u32; 3] {
            if full { [(i % w[0]) as u32, ((i / w[0]) % w[1]) as u32, (i / (w[0] * w[1])) as u32] } else { cases[i as usize] }
        };
        let proto = Sub::new(
            &format!("shorthand_{}", HELPERS[h].name),
            &format!(
                "test_util::{}: {} of {} primitive argument tuples ({})",
                HELPERS[h].name,
                ncases,
                total,
                if full { "full product" } else { "sweep of each dimension (all 8-bit values; 16-bit: all values up to limit+300, stride 61 above, all k*256+{0,1,127,255}; thorough: all) with the others at 0/limit + cross product of boundary values" }
            ),
            "non-trivial = out-of-range argument (must panic) or non-zero argument",
            full,
        );
        let st = ctx.pick(3u64, 1, 1);
        let n = (ncases + st - 1) / st;
        let mut sub = par_enum(ctx, &proto, n, |sub, j| {
            let a = get(j * st);
            sub.eval(
                a.iter().map(|v| *v as u128).sum(),
                || json!({"shorthand": HELPERS[h].name, "args": &a[..nargs]}),
                || check_helper(h, a),
            );
        });
        sub.add_samples(n, ctx.seed, |j| json!({"shorthand": HELPERS[h].name, "args": &get(j * st)[..nargs]}));
        sub.samples.truncate(2);
        subs.push(sub);
    }
    let mut sub = Sub::new("shorthand_nullary_and_quarter_frame", "the 9 nullary shorthands and time_code_quarter_frame for all 120 frames", "all", true);
    sub.eval(0, || json!({"shorthand": "nullary"}), nullary_helpers);
    sub.eval(1, || json!({"shorthand": "nullary"}), nullary_helpers);
    sub.samples.push(json!({"shorthand": "timing_clock"}));
    subs.push(sub);
    Report {
        subs,
        rule: "exhaustive over the argument domains of all named and generic constructors for four implementations; shorthands over full per-dimension sweeps (thorough: full product where <= 2^24); expected bytes by plain integer arithmetic, accessors compared with the reference decoding of those bytes".into(),
        assumptions: vec!["SystemExclusiveStart counts as neither System Common nor System Real Time (as the crate's FuzzyMessageSuperType documents)".into()],
    }
}

pub fn replay_c06(_sub: &str, case: &Value) -> Option<CheckResult> {
    if let Some(c) = case.get("ctor").and_then(|v| v.as_str()) {
        let ci = NAMED.iter().position(|n| *n == c)?;
        let i = json_u64(&case["index"])?;
        if i >= named_domain(ci) {
            return None;
        }
        return Some(check_named(ci, i));
    }
    if let Some(w) = case.get("generic") {
        let which = json_u8(w).filter(|w| *w < 3)?;
        let tb = json_u8(&case["type_byte"])?;
        let ti = TYPE_TABLE.iter().position(|(b, _)| *b == tb)?;
        let ch = json_u8(&case["channel"]).filter(|c| *c < 16)?;
        let d1 = json_u8(&case["data1"]).filter(|c| *c < 128)?;
        let d2 = json_u8(&case["data2"]).filter(|c| *c < 128)?;
        return Some(check_generic(which, ti, ch, d1, d2));
    }
    if let Some(s) = case.get("shorthand").and_then(|v| v.as_str()) {
        if s == "nullary" {
            return Some(nullary_helpers());
        }
        let h = HELPERS.iter().position(|h| h.name == s)?;
        let arr = case["args"].as_array()?;
        let mut a = [0u32; 3];
        for (i, v) in arr.iter().enumerate().take(3) {
            a[i] = json_u64(v)? as u32;
            if a[i] >= HELPERS[h].args.get(i)?.0 {
                return None;
            }
        }
        return Some(check_helper(h, a));
    }
    None
}

#[allow(dead_code)]
fn _unused(_: StructuredShortMessage, _: Foreign, _: ForeignTuple, _: U7, _: ShortMessageType) {}

/// C04: every restricted-integer value reachable through the accessors of a message built by the
/// named constructor `c` (argument index `i`) in implementation M lies within its range.
fn named_range_impl<M: Impl>(c: usize, i: u64) -> CheckResult {
    let m: M = named_build(c, i);
    let o = crate::p_short::observe(&m);
    crate::p_short::in_range_obs(&o).map_err(|f| Fail { sig: format!("produced_out_of_range/factory/{}/{}", NAMED[c], IMPL_NAMES[M::IDX as usize]), detail: f.detail })?;
    let so = crate::p_short::observe(&o.structured);
    crate::p_short::in_range_obs(&so).map_err(|f| Fail { sig: format!("produced_out_of_range/factory/{}/{}/to_structured", NAMED[c], IMPL_NAMES[M::IDX as usize]), detail: f.detail })?;
    Ok(true)
}

pub fn named_range(c: usize, i: u64) -> CheckResult {
    for k in 0..4u8 {
        for_impl!(k, named_range_impl(c, i))?;
    }
    Ok(true)
}
