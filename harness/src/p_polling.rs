//! C12 (documented sequence grammar), C13 (timeout), C14 (no fabrication / duplication / loss)
//! for the polling (N)RPN scanner. Needs the std feature; explicit time needs the mock-clock hook.
use crate::bfs::*;
use crate::engine::*;
use crate::ensure;
use crate::ops::polling::*;
use crate::ops::*;
use crate::pollobs::*;
use crate::refmodel::*;
use helgoboss_midi::{ParameterNumberMessage, PollingParameterNumberMessageScanner};
use proptest::prelude::*;
use serde_json::{json, Value};

/// (10^18 + 1 ns, about 31.7 years, is a large *finite* timeout: beyond f64 / u32-second precision)
pub const TIMEOUTS: [u64; 8] = [0, 1, 1_000_000, 10_000_000_000, u64::MAX, u64::MAX - 1, u64::MAX - 2, 1_000_000_000_000_000_001];

/// clock epochs used by the history checks (0, 1 ns, ~11.5 days); only elapsed time may matter
pub fn clock_start(h: u64) -> u64 {
    if HAVE_CLOCK { [0u64, 1, 1_000_000_000_000_000][(h % 3) as usize] } else { 0 }
}

pub fn timeout_opt(ns: u64) -> Option<u64> {
    if is_infinite(ns) { None } else { Some(ns) }
}

pub fn new_scanner(timeout_ns: u64) -> PollingParameterNumberMessageScanner {
    api(|| PollingParameterNumberMessageScanner::new(timeout_of(timeout_ns)))
}

pub fn obs2(out: &[Option<ParameterNumberMessage>; 2]) -> [Option<PnReport>; 2] {
    [out[0].as_ref().map(observe_pn), out[1].as_ref().map(observe_pn)]
}

fn well_formed(m: &ParameterNumberMessage) -> Result<(), Fail> {
    let r = observe_pn(m);
    ensure!(r.channel < 16 && r.number < 16384 && r.value < 16384, "report/out_of_range", "{:?}", r);
    ensure!(r.is_14_bit || r.value < 128, "report/seven_bit_value_over_127", "{:?}", r);
    ensure!(!r.is_14_bit || r.kind == 0, "report/fourteen_bit_not_data_entry", "{:?}", r);
    ensure!(*m == build_pn(&r), "report/not_equal_to_constructed_message", "{:?}", m);
    reencode_pn(m)?;
    Ok(())
}

#[derive(Default, Clone)]
pub struct PollStats {
    pub reports: u32,
    pub poll_reports: u32,
    pub two_message_feeds: u32,
    pub fourteen: u32,
    pub polls_early: u32,
    pub polls_exact: u32,
    pub polls_late: u32,
    pub malformed: u32,
    pub reset_while_pending: bool,
    pub aborted_other_property: bool,
}

/// Runs a history on the real scanner under the observer. Failures that belong to `prop` are
/// returned; a failure that only belongs to other properties ends the case silently.
pub fn run_observed(prop: &str, timeout_ns: u64, ops: &[Op], epilogue: bool, stats: &mut PollStats) -> Result<(), Fail> {
    let timeout = timeout_opt(timeout_ns);
    // with a zero timeout the scanner is created through Default half of the time
    let mut sc = if timeout_ns == 0 && hash64(&ops) & 1 == 1 { api(PollingParameterNumberMessageScanner::default) } else { new_scanner(timeout_ns) };
    let mut ob = PollObserver::new(timeout);
    // the epoch of the clock must not matter: the history itself picks where the clock starts
    let mut now: u64 = clock_start(hash64(&ops));
    set_clock(now);
    let mut tail: Vec<Op> = Vec::new();
    if epilogue {
        if let Some(t) = timeout {
            tail.push(Op::Advance(t));
            for c in 0..16 {
                tail.push(Op::Poll(c));
            }
        }
    }
    for (i, op) in ops.iter().chain(tail.iter()).enumerate() {
        let r: Result<(), TFail> = match *op {
            Op::Feed { carrier, s, d1, d2 } => {
                set_clock(now);
                let out = feed_polling(&mut sc, carrier, s, d1, d2);
                for m in out.iter().flatten() {
                    well_formed(m)?;
                }
                let o = obs2(&out);
                // generator statistics (before the observer consumes the message)
                if s >> 4 == 0xB {
                    let st = ob.ch[(s & 15) as usize];
                    match d1 {
                        6 | 38 | 96 | 97 if !st.complete() => stats.malformed += 1,
                        98..=101 if st.complete() => stats.malformed += 1,
                        _ => {}
                    }
                }
                stats.reports += o.iter().flatten().count() as u32;
                if o[1].is_some() {
                    stats.two_message_feeds += 1;
                }
                stats.fourteen += o.iter().flatten().filter(|m| m.is_14_bit).count() as u32;
                ob.on_feed(now, s, d1, d2, &o)
            }
            Op::Poll(c) => {
                set_clock(now);
                if let (Some(p), Some(t)) = (ob.ch[c as usize].outstanding(), timeout) {
                    let age = now.saturating_sub(p.t);
                    if age < t {
                        stats.polls_early += 1;
                    } else if age == t {
                        stats.polls_exact += 1;
                    } else {
                        stats.polls_late += 1;
                    }
                }
                let before = sc;
                let out = api(|| sc.poll(h_ch(c)));
                if let Some(m) = &out {
                    well_formed(m)?;
                    stats.reports += 1;
                    stats.poll_reports += 1;
                }
                let unchanged = sc == before;
                ob.on_poll(now, c, &out.as_ref().map(observe_pn), unchanged)
            }
            Op::Advance(d) => {
                if HAVE_CLOCK {
                    now = now.saturating_add(d);
                }
                Ok(())
            }
            Op::Reset => {
                if ob.ch.iter().any(|c| c.outstanding().is_some()) {
                    stats.reset_while_pending = true;
                }
                api(|| sc.reset());
                ob.reset();
                Ok(())
            }
        };
        if let Err(tf) = r {
            if tf.props.contains(&prop) {
                return Err(Fail { sig: tf.fail.sig, detail: format!("op #{} {:?}: {}", i, op, tf.fail.detail) });
            }
            stats.aborted_other_property = true;
            return Ok(());
        }
    }
    Ok(())
}

#[derive(Clone, Debug)]
pub struct PollCase {
    pub hist: RawHistory,
    pub timeout_idx: u8,
}

pub fn poll_case_timeout(c: &PollCase) -> u64 {
    if HAVE_CLOCK {
        TIMEOUTS[c.timeout_idx as usize % TIMEOUTS.len()]
    } else {
        [0, u64::MAX, u64::MAX - 1][c.timeout_idx as usize % 3]
    }
}

pub fn poll_case_ops(c: &PollCase) -> Vec<Op> {
    concretize(Kind::Polling, &c.hist, poll_case_timeout(c))
}

pub fn timeout_json(timeout_ns: u64) -> Value {
    match timeout_ns {
        T_MAX => json!("max"),
        T_HUGE_SECS => json!("u64_max_seconds"),
        T_2_POW_64_NS => json!("2_pow_64_ns"),
        n => json!(n),
    }
}

pub fn poll_case_json(timeout_ns: u64, ops: &[Op]) -> Value {
    json!({"kind": "observed_history", "timeout_ns": timeout_json(timeout_ns), "ops": ops_json(ops)})
}

pub fn timeout_from(v: &Value) -> Option<u64> {
    match v.as_str() {
        Some("max") => Some(T_MAX),
        Some("u64_max_seconds") => Some(T_HUGE_SECS),
        Some("2_pow_64_ns") => Some(T_2_POW_64_NS),
        _ => json_u64(v),
    }
}

fn poll_case_strategy(max_len: usize, timeouts: &'static [u8]) -> impl Strategy<Value = PollCase> {
    (history_strategy(Kind::Polling, max_len), prop::sample::select(timeouts)).prop_map(|(hist, timeout_idx)| PollCase { hist, timeout_idx })
}

fn observed_outcome(prop: &str, timeout_ns: u64, ops: &[Op]) -> Result<ROutcome, Fail> {
    let mut st = PollStats::default();
    run_observed(prop, timeout_ns, ops, true, &mut st)?;
    let mut classes = Vec::new();
    if st.reports > 0 {
        classes.push("has_report");
    }
    if st.poll_reports > 0 {
        classes.push("has_poll_report");
    }
    if st.two_message_feeds > 0 {
        classes.push("has_two_message_feed");
    }
    if st.fourteen > 0 {
        classes.push("has_14_bit_report");
    }
    if st.malformed > 0 {
        classes.push("has_malformed_event");
    }
    if st.reset_while_pending {
        classes.push("reset_while_pending");
    }
    if st.polls_early > 0 {
        classes.push("poll_before_deadline_with_pending_msb");
    }
    if st.polls_exact > 0 {
        classes.push("poll_exactly_at_deadline_with_pending_msb");
    }
    if st.polls_late > 0 {
        classes.push("poll_after_deadline_with_pending_msb");
    }
    if st.aborted_other_property {
        classes.push("aborted_violation_of_other_property");
    }
    let regions = (st.polls_early > 0) as u32 + (st.polls_exact > 0) as u32 + (st.polls_late > 0) as u32;
    let nontrivial = if prop == "C13" {
        regions >= 2 || ((timeout_ns == 0 || is_infinite(timeout_ns)) && regions >= 1)
    } else {
        st.reports > 0 && (st.malformed > 0 || st.reset_while_pending)
    };
    Ok(ROutcome { nontrivial, classes, hash: hash64(&(timeout_ns, ops)) })
}

// ---------------------------------------------------------------------------------------------
// Style B: fixpoint of (scanner, observer) on one channel with explicit time
// ---------------------------------------------------------------------------------------------

#[derive(Clone)]
struct BState {
    sc: PollingParameterNumberMessageScanner,
    ob: PollObserver,
    now: u64,
}

fn bfs_polling(ctx: &Ctx, prop: &'static str, name: &str, ch: u8, timeout_ns: u64, values: &[u8]) -> Sub {
    let mut alphabet: Vec<Op> = Vec::new();
    for cn in NRPN_CONTROLLERS {
        for &v in values {
            alphabet.push(Op::cc(ch, cn, v));
        }
    }
    // non-contributing Control Changes (neighbours of the eight controllers, channel mode range)
    for cn in [0u8, 5, 7, 37, 39, 64, 95, 102, 120, 121, 127] {
        alphabet.push(Op::cc(ch, cn, 1));
    }
    alphabet.push(Op::Feed { carrier: 2, s: 0xFF, d1: 0, d2: 0 });
    alphabet.push(Op::Reset);
    alphabet.push(Op::Poll(ch));
    if timeout_ns > 0 && HAVE_CLOCK {
        for d in [1, timeout_ns - 1, timeout_ns] {
            if d > 0 && !alphabet.contains(&Op::Advance(d)) {
                alphabet.push(Op::Advance(d));
            }
        }
    }
    let cap = 2 * timeout_ns + 2;
    let pruned_other = std::sync::atomic::AtomicU64::new(0);
    let t0 = std::time::Instant::now();
    let step = |s: &BState, i: usize| -> Result<Option<BState>, Fail> {
        let mut n = s.clone();
        set_clock(n.now);
        let r: Result<(), TFail> = match alphabet[i] {
            Op::Feed { carrier, s, d1, d2 } => {
                let out = feed_polling(&mut n.sc, carrier, s, d1, d2);
                for m in out.iter().flatten() {
                    well_formed(m)?;
                }
                n.ob.on_feed(n.now, s, d1, d2, &obs2(&out))
            }
            Op::Poll(c) => {
                let before = n.sc;
                let out = api(|| n.sc.poll(h_ch(c)));
                let unchanged = n.sc == before;
                n.ob.on_poll(n.now, c, &out.as_ref().map(observe_pn), unchanged)
            }
            Op::Advance(d) => {
                n.now += d;
                Ok(())
            }
            Op::Reset => {
                api(|| n.sc.reset());
                n.ob.reset();
                Ok(())
            }
        };
        match r {
            Ok(()) => Ok(Some(n)),
            Err(tf) if tf.props.contains(&prop) => Err(tf.fail),
            Err(_) => {
                pruned_other.fetch_add(1, std::sync::atomic::Ordering::Relaxed);
                Ok(None)
            }
        }
    };
    let key = |s: &BState| -> Key {
        set_clock(s.now);
        set_age_cap(cap);
        let k = key_of(&s.sc, &s.ob.key_words(s.now, ch, cap));
        set_age_cap(u64::MAX);
        k
    };
    let mut out = bfs(ctx, BState { sc: new_scanner(timeout_ns), ob: PollObserver::new(timeout_opt(timeout_ns)), now: 0 }, alphabet.len(), &step, key, 400_000);
    let mut probe_transitions = 0u64;
    if out.failure.is_none() && !ctx.reduced {
        // repetition probes (wrapping counters) from a bounded number of states
        let (tr, f) = repetition_probes(ctx, &out, alphabet.len(), &step, &[255, 256, 257], 600);
        probe_transitions = tr;
        if f.is_some() {
            out.failure = f;
        }
    }
    let mut sub = Sub::new(
        name,
        &format!(
            "all histories of every length on channel {} over the 8 (N)RPN controllers x values {:?} + transparent CC + reset + poll + time steps {:?} with timeout {} ns (fixpoint of scanner state x history-observer state, ages capped at {})",
            ch,
            values,
            alphabet.iter().filter_map(|o| if let Op::Advance(d) = o { Some(*d) } else { None }).collect::<Vec<_>>(),
            timeout_ns,
            cap
        ),
        "non-trivial = transition taken from a non-initial state",
        out.complete && out.failure.is_none(),
    );
    sub.evals = out.transitions + probe_transitions;
    sub.states = out.states.len() as u64;
    sub.transitions = out.transitions;
    sub.nontrivial = (out.transitions + probe_transitions).saturating_sub(alphabet.len() as u64);
    sub.wall_ms = t0.elapsed().as_millis() as u64;
    sub.class_n("bfs_depth", out.max_depth as u64);
    sub.class_n("repetition_probe_transitions", probe_transitions);
    sub.class_n("pruned_violation_of_other_property", pruned_other.load(std::sync::atomic::Ordering::Relaxed));
    if !out.complete && out.failure.is_none() {
        sub.notes.push("state cap reached before the fixpoint".into());
    }
    let last = out.states.len() - 1;
    let path: Vec<Op> = out.path_to(last).iter().map(|i| alphabet[*i]).collect();
    sub.samples.push(poll_case_json(timeout_ns, &path));
    if let Some((path, f)) = out.failure {
        let ops: Vec<Op> = path.iter().map(|i| alphabet[*i]).collect();
        sub.record(f, || poll_case_json(timeout_ns, &ops), ops.len() as u128);
    }
    sub
}

// ---------------------------------------------------------------------------------------------
// C13 scenario families (explicit expectations)
// ---------------------------------------------------------------------------------------------

#[derive(Clone, Debug)]
pub struct Scenario {
    pub prefix: RawHistory,
    pub timeout_idx: u8,
    pub ch: u8,
    pub registered: bool,
    pub number: u16,
    pub a: u8,
    pub b: u8,
    pub family: u8,
    pub extra: Vec<(u8, u64)>,
}

fn scenario_timeout(s: &Scenario) -> u64 {
    // finite timeouts only (the families talk about "after the timeout")
    if HAVE_CLOCK { [0u64, 1, 1_000_000, 10_000_000_000][s.timeout_idx as usize % 4] } else { 0 }
}

struct Sim {
    sc: PollingParameterNumberMessageScanner,
    now: u64,
}
impl Sim {
    fn feed(&mut self, ch: u8, cn: u8, v: u8) -> [Option<PnReport>; 2] {
        set_clock(self.now);
        obs2(&feed_polling(&mut self.sc, 0, 0xB0 | ch, cn, v))
    }
    fn poll(&mut self, ch: u8) -> Option<PnReport> {
        set_clock(self.now);
        api(|| self.sc.poll(h_ch(ch))).as_ref().map(observe_pn)
    }
    fn advance(&mut self, d: u64) {
        if HAVE_CLOCK {
            self.now = self.now.saturating_add(d);
        }
    }
    fn apply(&mut self, ops: &[Op]) {
        for op in ops {
            match *op {
                Op::Feed { carrier, s, d1, d2 } => {
                    set_clock(self.now);
                    let _ = feed_polling(&mut self.sc, carrier, s, d1, d2);
                }
                Op::Poll(c) => {
                    let _ = self.poll(c);
                }
                Op::Advance(d) => self.advance(d),
                Op::Reset => api(|| self.sc.reset()),
            }
        }
    }
}

fn check_scenario(s: &Scenario) -> Result<ROutcome, Fail> {
    let t = scenario_timeout(s);
    let prefix = concretize(Kind::Polling, &s.prefix, t);
    check_scenario_ops(s, &prefix, t)
}

/// The scenario body on an explicit prefix and timeout (shared by generation and replay).
fn check_scenario_ops(s: &Scenario, prefix: &[Op], t: u64) -> Result<ROutcome, Fail> {
    let start = clock_start(hash64(&(prefix, s.a, s.b)));
    set_clock(start);
    let mut sim = Sim { sc: new_scanner(t), now: start };
    sim.apply(prefix);
    if sim.now > (1u64 << 63) {
        // a clock this close to saturation cannot "let the timeout pass" any more: not a valid case
        return Ok(ROutcome { nontrivial: false, classes: vec![], hash: 0 });
    }
    let ch = s.ch;
    // a fresh selection on the channel (outputs of the selection bytes may flush earlier traffic)
    let _ = sim.feed(ch, if s.registered { 101 } else { 99 }, (s.number >> 7) as u8);
    let _ = sim.feed(ch, if s.registered { 100 } else { 98 }, (s.number & 127) as u8);
    let seven = |v: u8| PnReport { channel: ch, number: s.number, value: v as u16, registered: s.registered, is_14_bit: false, kind: 0 };
    let mut classes = vec![];
    match s.family % 4 {
        0 => {
            // unpaired LSB: dropped by the first poll after the timeout, never reported
            classes.push("family_unpaired_lsb");
            let r = sim.feed(ch, 38, s.a);
            ensure!(r == [None, None], "scenario/unpaired_lsb/lsb_reported", "cc 38 after a selection returned {:?}", r);
            sim.advance(t + s.extra.first().map_or(0, |e| e.1 % 5));
            let p = sim.poll(ch);
            ensure!(p.is_none(), "scenario/unpaired_lsb/reported_by_poll", "poll after the timeout returned {:?} for an unpaired data entry LSB", p);
            let r = sim.feed(ch, 6, s.b);
            ensure!(r == [None, None], "scenario/unpaired_lsb/not_dropped", "cc 6 after the dropped LSB returned {:?} (expected nothing: the LSB must have been dropped by the poll)", r);
            sim.advance(t);
            let p = sim.poll(ch);
            ensure!(p == Some(seven(s.b)), "scenario/unpaired_lsb/msb_not_reported_as_7_bit", "poll returned {:?}, expected {:?}", p, seven(s.b));
        }
        1 => {
            // early-poll twin: a poll before the timeout has no effect, the pair completes
            classes.push("family_early_poll_twin");
            if t == 0 {
                return Ok(ROutcome { nontrivial: false, classes, hash: 0 });
            }
            let r = sim.feed(ch, 38, s.a);
            ensure!(r == [None, None], "scenario/early_poll/lsb_reported", "{:?}", r);
            sim.advance(s.extra.first().map_or(0, |e| e.1 % t));
            let before = sim.sc;
            let p = sim.poll(ch);
            ensure!(p.is_none() && sim.sc == before, "scenario/early_poll/has_effect", "poll before the timeout returned {:?} / changed the scanner", p);
            let r = sim.feed(ch, 6, s.b);
            let want = PnReport { channel: ch, number: s.number, value: 128 * s.b as u16 + s.a as u16, registered: s.registered, is_14_bit: true, kind: 0 };
            ensure!(r == [Some(want), None], "scenario/early_poll/pair_not_completed", "cc 6 after LSB + early poll returned {:?}, expected {:?}", r, want);
        }
        2 => {
            // poll once: after a successful poll, polls and time return nothing until new input
            classes.push("family_poll_once");
            let r = sim.feed(ch, 6, s.a);
            ensure!(r == [None, None], "scenario/poll_once/msb_reported_immediately", "{:?}", r);
            if t > 0 {
                sim.advance(t - 1);
                let before = sim.sc;
                let p = sim.poll(ch);
                ensure!(p.is_none() && sim.sc == before, "scenario/poll_once/early_poll_has_effect", "poll 1 ns before the timeout returned {:?} / changed the scanner", p);
                sim.advance(1);
            }
            let p = sim.poll(ch);
            ensure!(p == Some(seven(s.a)), "scenario/poll_once/not_reported_at_timeout", "poll exactly at the timeout returned {:?}, expected {:?}", p, seven(s.a));
            for (k, d) in s.extra.iter() {
                if k % 2 == 0 {
                    sim.advance(*d % 1_000_000_000_000);
                } else {
                    let p = sim.poll(ch);
                    ensure!(p.is_none(), "scenario/poll_once/reported_again", "a further poll returned {:?}", p);
                }
            }
            let p = sim.poll(ch);
            ensure!(p.is_none(), "scenario/poll_once/reported_again", "a further poll returned {:?}", p);
            // new input is then handled normally
            let r = sim.feed(ch, 6, s.b);
            ensure!(r == [None, None], "scenario/poll_once/next_msb", "{:?}", r);
            sim.advance(t);
            let p = sim.poll(ch);
            ensure!(p == Some(seven(s.b)), "scenario/poll_once/next_msb_not_reported", "{:?}", p);
        }
        _ => {
            // time is invisible to feed: same feeds, two advance patterns, no polls
            classes.push("family_time_invisible_to_feed");
            let feeds: Vec<Op> = prefix.iter().filter(|o| matches!(o, Op::Feed { .. } | Op::Reset)).cloned().collect();
            let mut a = Sim { sc: new_scanner(t), now: 0 };
            let mut b = Sim { sc: new_scanner(t), now: 0 };
            for (i, op) in feeds.iter().enumerate() {
                if let Op::Feed { carrier, s: st, d1, d2 } = *op {
                    set_clock(a.now);
                    let ra = obs2(&feed_polling(&mut a.sc, carrier, st, d1, d2));
                    b.advance(s.extra.get(i % s.extra.len().max(1)).map_or(t, |e| e.1 % (2 * t + 3)));
                    set_clock(b.now);
                    let rb = obs2(&feed_polling(&mut b.sc, carrier, st, d1, d2));
                    ensure!(ra == rb, "scenario/time_visible_to_feed", "feed #{} {:?} returned {:?} without time passing and {:?} with time passing", i, op, ra, rb);
                } else {
                    api(|| a.sc.reset());
                    api(|| b.sc.reset());
                }
            }
        }
    }
    Ok(ROutcome { nontrivial: true, classes, hash: hash64(&(s.family % 4, s.ch, s.number, s.a, s.b, t, &s.extra, &prefix)) })
}

fn scenario_json(s: &Scenario) -> Value {
    let t = scenario_timeout(s);
    json!({"kind": "scenario", "family": s.family % 4, "timeout_ns": t, "prefix": ops_json(&concretize(Kind::Polling, &s.prefix, t)),
           "channel": s.ch, "registered": s.registered, "number": s.number, "a": s.a, "b": s.b,
           "extra": s.extra.iter().map(|e| json!([e.0, e.1])).collect::<Vec<_>>(), "timeout_idx": s.timeout_idx})
}

/// replay form of a scenario: the prefix is given as concrete ops
fn check_scenario_json(v: &Value) -> Option<CheckResult> {
    let prefix = ops_from(&v["prefix"])?;
    let extra: Option<Vec<(u8, u64)>> = v["extra"].as_array()?.iter().map(|e| Some((json_u8(&e[0])?, json_u64(&e[1])?))).collect();
    let s = Scenario {
        prefix: RawHistory { mask: 1, palette: [0; 3], preselect: 0, raw: vec![] },
        timeout_idx: json_u8(&v["timeout_idx"])?,
        ch: json_u8(&v["channel"]).filter(|c| *c < 16)?,
        registered: v["registered"].as_bool()?,
        number: json_u64(&v["number"]).filter(|n| *n < 16384)? as u16,
        a: json_u8(&v["a"]).filter(|c| *c < 128)?,
        b: json_u8(&v["b"]).filter(|c| *c < 128)?,
        family: json_u8(&v["family"])?,
        extra: extra?,
    };
    let t = json_u64(&v["timeout_ns"])?;
    if !HAVE_CLOCK && t != 0 {
        return None;
    }
    Some(check_scenario_ops(&s, &prefix, t).map(|o| o.nontrivial))
}

// ---------------------------------------------------------------------------------------------
// C13 / C14 runs
// ---------------------------------------------------------------------------------------------

static ALL_TIMEOUT_IDX: [u8; 11] = [0, 1, 2, 3, 4, 5, 6, 7, 7, 2, 3];
static C14_TIMEOUT_IDX: [u8; 8] = [0, 2, 2, 1, 3, 5, 6, 7];

fn observed_sub(ctx: &Ctx, prop: &'static str, name: &str, cases: u64, max_len: usize, timeouts: &'static [u8], weights: Option<fn() -> Weights>) -> Sub {
    let proto = Sub::new(
        name,
        &format!(
            "seeded random histories of feeds (full alphabet incl. malformed traffic, four carriers), polls, time steps {{0, 1 ns, T-1, T, T+1, 2T, random}}, resets on 1-16 channels; timeouts {:?} ns; every call judged by the history observer; epilogue: advance by T and poll every channel",
            timeouts.iter().map(|i| timeout_json(TIMEOUTS[*i as usize]).to_string()).collect::<Vec<_>>()
        ),
        if prop == "C13" {
            "non-trivial = polls with a pending MSB in at least two of the regions before / exactly at / after the deadline (one region for timeouts 0 and MAX); distinct by hash"
        } else {
            "non-trivial = history with a report and a malformed event (value byte before the number is complete, one-half re-selection, reset while pending); distinct by hash"
        },
        false,
    );
    par_proptest(
        ctx,
        &proto,
        cases,
        || {
            let hs = match weights {
                Some(w) => history_strategy_w(max_len, w()).boxed(),
                None => history_strategy(Kind::Polling, max_len).boxed(),
            };
            (hs, prop::sample::select(timeouts)).prop_map(|(hist, timeout_idx)| PollCase { hist, timeout_idx })
        },
        |c: &PollCase| poll_case_json(poll_case_timeout(c), &poll_case_ops(c)),
        move |c: &PollCase| observed_outcome(prop, poll_case_timeout(c), &poll_case_ops(c)),
    )
}

fn timing_weights() -> Weights {
    Weights { contrib: 45, other_cc: 3, other_msg: 3, system: 1, reset: 2, poll: 26, advance: 20 }
}

pub fn run_c13(ctx: &Ctx) -> Report {
    let mut subs = Vec::new();
    // R: histories biased towards polls and time steps
    {
        let cases = ctx.pick(3_000u64, 150_000, 1_000_000);
        let max_len = ctx.pick(32usize, 64, 300);
        let mut sub = observed_sub(ctx, "C13", "observed_histories", cases, max_len, &ALL_TIMEOUT_IDX, Some(timing_weights));
        sub.floor("has_poll_report", 100);
        if HAVE_CLOCK {
            sub.floor("poll_before_deadline_with_pending_msb", 30);
            sub.floor("poll_exactly_at_deadline_with_pending_msb", 30);
            sub.floor("poll_after_deadline_with_pending_msb", 30);
        }
        subs.push(sub);
    }
    // B: fixpoints
    if HAVE_CLOCK {
        let values: &[u8] = if ctx.thorough() { &[0, 1, 127] } else { &[0, 127] };
        subs.push(bfs_polling(ctx, "C13", "bfs_timeout_3ns", 4, 3, if ctx.reduced { &[5] } else { values }));
    }
    if HAVE_CLOCK {
        // (with the real clock the scanner's Debug output contains wall-clock instants: no finite keys)
        subs.push(bfs_polling(ctx, "C13", "bfs_timeout_0_frozen_clock", 11, 0, if ctx.reduced { &[5] } else { &[0, 1, 127] }));
    }
    subs.push(constructed_sub(ctx, "C13"));
    subs.push(many_pending_sub(ctx, "C13"));
    // scenario families
    {
        let cases = ctx.pick(2_000u64, 150_000, 800_000);
        let max_len = ctx.pick(16usize, 32, 100);
        let proto = Sub::new(
            "scenario_families",
            "after an arbitrary random prefix and a fresh selection: (0) unpaired LSB dropped by the first poll after the timeout, (1) early-poll twin completes the pair, (2) poll once: exact deadline, no repeat, (3) time is invisible to feed (same feeds under two advance patterns); finite timeouts {0, 1 ns, 1 ms, 10 s}",
            "every generated scenario (except the early-poll twin at timeout 0); distinct by hash",
            false,
        );
        let mut sub = par_proptest(
            ctx,
            &proto,
            cases,
            || {
                (
                    history_strategy(Kind::Polling, max_len),
                    (0u8..4, 0u8..16, any::<bool>(), 0u16..16384, 0u8..128, 0u8..128, 0u8..4),
                    prop::collection::vec((any::<u8>(), any::<u64>()), 1..6),
                )
                    .prop_map(|(prefix, (timeout_idx, ch, registered, number, a, b, family), extra)| Scenario { prefix, timeout_idx, ch, registered, number, a, b, family, extra })
            },
            scenario_json,
            check_scenario,
        );
        for f in ["family_unpaired_lsb", "family_early_poll_twin", "family_poll_once", "family_time_invisible_to_feed"] {
            sub.floor(f, 150);
        }
        subs.push(sub);
    }
    Report {
        subs,
        rule: "history observer decides every poll exactly (Some iff an unreported data entry MSB fed with a complete number is the outstanding byte of the channel and now - t_fed >= timeout) and that early polls leave the scanner == its copy; time is a generated value through the mock clock (steps below / at / above the timeout)".into(),
        assumptions: vec![
            "time only advances (monotone mock clock); std::time::Instant is replaced by the hook under --cfg helgoboss_midi_verif".into(),
            "style-B keys cap ages at 2T+2 ns: sound for code that compares the elapsed time with the timeout".into(),
        ],
    }
}

pub fn run_c14(ctx: &Ctx) -> Report {
    let mut subs = Vec::new();
    {
        let cases = ctx.pick(3_000u64, 150_000, 1_000_000);
        let max_len = ctx.pick(32usize, 64, 400);
        let mut sub = observed_sub(ctx, "C14", "observed_histories", cases, max_len, &C14_TIMEOUT_IDX, None);
        sub.floor("has_report", 300);
        sub.floor("has_malformed_event", 300);
        sub.floor("has_two_message_feed", 10);
        sub.floor("has_14_bit_report", 50);
        subs.push(sub);
    }
    if HAVE_CLOCK {
        let values: &[u8] = if ctx.thorough() { &[0, 1, 127] } else { &[0, 127] };
        subs.push(bfs_polling(ctx, "C14", "bfs_timeout_3ns", 6, 3, if ctx.reduced { &[5] } else { values }));
    }
    if HAVE_CLOCK {
        subs.push(bfs_polling(ctx, "C14", "bfs_timeout_0_frozen_clock", 15, 0, if ctx.reduced { &[5] } else { &[0, 1, 127] }));
    }
    subs.push(constructed_sub(ctx, "C14"));
    subs.push(many_pending_sub(ctx, "C14"));
    Report {
        subs,
        rule: "history-observer invariants after every call: channel, number/kind from the latest number bytes before the call, value from actually received bytes (inc/dec: current message; 7-bit: most recent unreported controller-6 byte; 14-bit: most recent controller-6 and controller-38 bytes incl. the current one), no duplicate 7-bit report, no 7-bit after 14-bit use, no loss (outstanding byte reported by the next contributing message or the first late poll), shape of two-message results".into(),
        assumptions: vec![
            "the observer records facts of the history (not the scanner's phases); it demands nothing for malformed traffic beyond the listed invariants".into(),
            "time only advances (monotone mock clock)".into(),
        ],
    }
}

pub fn replay_polling(prop: &str, _sub: &str, case: &Value) -> Option<CheckResult> {
    match case["kind"].as_str()? {
        "observed_history" => {
            let t = timeout_from(&case["timeout_ns"])?;
            if !HAVE_CLOCK && t != 0 && !is_infinite(t) {
                return None;
            }
            let ops = ops_from(&case["ops"])?;
            Some(observed_outcome(prop, t, &ops).map(|o| o.nontrivial))
        }
        "scenario" => check_scenario_json(case),
        _ => None,
    }
}

// ---------------------------------------------------------------------------------------------
// constructed state x input (full value range of the data bytes)
// ---------------------------------------------------------------------------------------------

/// prefix form 0..6 with value bytes a, b, then a time step and one probe operation
fn constructed_history(ch: u8, form: u8, a: u8, b: u8, number: u16, registered: bool, dt: u64, probe: Op) -> Vec<Op> {
    let (cm, cl) = if registered { (101, 100) } else { (99, 98) };
    let mut ops = vec![Op::cc(ch, cm, (number >> 7) as u8), Op::cc(ch, cl, (number & 127) as u8)];
    match form % 7 {
        0 => {}
        1 => ops.push(Op::cc(ch, 6, a)),
        2 => ops.push(Op::cc(ch, 38, a)),
        3 => ops.extend([Op::cc(ch, 6, a), Op::cc(ch, 38, b)]),
        4 => ops.extend([Op::cc(ch, 38, b), Op::cc(ch, 6, a)]),
        5 => ops.extend([Op::cc(ch, 6, a), Op::cc(ch, 38, b), Op::cc(ch, 38, a)]),
        _ => ops.extend([Op::cc(ch, 6, a), Op::cc(ch, 6, b)]),
    }
    if dt > 0 && HAVE_CLOCK {
        ops.push(Op::Advance(dt));
    }
    ops.push(probe);
    ops
}

fn constructed_sub(ctx: &Ctx, prop: &'static str) -> Sub {
    let timeout: u64 = if HAVE_CLOCK { 1_000 } else { 0 };
    let mut probes: Vec<Op> = Vec::new();
    let ch = 10u8;
    for cn in NRPN_CONTROLLERS {
        for v in [0u8, 1, 127] {
            probes.push(Op::cc(ch, cn, v));
        }
    }
    probes.push(Op::Poll(ch));
    probes.push(Op::cc(ch, 7, 9));
    let dts: Vec<u64> = if HAVE_CLOCK { vec![0, timeout - 1, timeout, timeout + 1] } else { vec![0] };
    let numbers = [(0u16, false), (16383, true), (129, true), (8192 + 77, false)];
    let np = probes.len() as u64;
    let nd = dts.len() as u64;
    let stride = ctx.pick(211u64, 7, 1);
    let total = 7 * 128 * 128 * np * nd * numbers.len() as u64;
    let proto = Sub::new(
        "constructed_state_x_input",
        &format!("7 prefix forms after a selection (nothing / MSB / LSB / MSB+LSB / LSB+MSB / MSB+LSB+LSB / MSB+MSB) x all 128 x 128 values of the two data bytes x 4 numbers x time steps {:?} ns (timeout {} ns) x {} probe operations (every controller x {{0,1,127}}, poll, a transparent CC), judged by the history observer; stride {}", dts, timeout, np, stride),
        "non-trivial = every constructed history",
        stride == 1,
    );
    let mut sub = par_enum(ctx, &proto, total / stride, |sub, j| {
        let mut i = j * stride;
        let probe = probes[(i % np) as usize];
        i /= np;
        let dt = dts[(i % nd) as usize];
        i /= nd;
        let (number, registered) = numbers[(i % numbers.len() as u64) as usize];
        i /= numbers.len() as u64;
        let (b, a, form) = ((i % 128) as u8, ((i / 128) % 128) as u8, (i / 16384) as u8);
        sub.eval(
            j as u128,
            || poll_case_json(timeout, &constructed_history(ch, form, a, b, number, registered, dt, probe)),
            || {
                let ops = constructed_history(ch, form, a, b, number, registered, dt, probe);
                let mut st = PollStats::default();
                run_observed(prop, timeout, &ops, true, &mut st)?;
                Ok(true)
            },
        );
    });
    sub.samples.push(poll_case_json(timeout, &constructed_history(ch, 3, 117, 24, 129, true, timeout, Op::Poll(ch))));
    sub
}

// ---------------------------------------------------------------------------------------------
// many channels pending at once (counts / bitmaps of pending channels)
// ---------------------------------------------------------------------------------------------

fn many_pending_history(n: usize, seed: u64, timeout: u64) -> Vec<Op> {
    // a seed-chosen set of n channels in a seed-chosen order
    let mut chans: Vec<u8> = (0..16).collect();
    let mut m = Mix(seed);
    for i in (1..16).rev() {
        chans.swap(i, m.below(i as u64 + 1) as usize);
    }
    chans.truncate(n);
    let mut ops = Vec::new();
    for &c in &chans {
        let reg = m.below(2) == 1;
        ops.push(Op::cc(c, if reg { 101 } else { 99 }, m.below(128) as u8));
        ops.push(Op::cc(c, if reg { 100 } else { 98 }, m.below(128) as u8));
    }
    let variant = m.below(3);
    for &c in &chans {
        match variant {
            0 => ops.push(Op::cc(c, 6, m.below(128) as u8)),
            1 => {
                // a complete 14-bit value, then a new pending MSB
                ops.push(Op::cc(c, 6, m.below(128) as u8));
                ops.push(Op::cc(c, 38, m.below(128) as u8));
                ops.push(Op::cc(c, 6, m.below(128) as u8));
            }
            _ => {
                ops.push(Op::cc(c, 38, m.below(128) as u8));
                ops.push(Op::cc(c, 6, m.below(128) as u8));
                ops.push(Op::cc(c, 6, m.below(128) as u8));
            }
        }
    }
    if HAVE_CLOCK {
        // exactly at the deadline or strictly after it
        ops.push(Op::Advance(timeout + m.below(2)));
    }
    // poll in another seed-chosen order, every channel twice
    let mut order = chans.clone();
    for i in (1..order.len()).rev() {
        order.swap(i, m.below(i as u64 + 1) as usize);
    }
    for &c in &order {
        ops.push(Op::Poll(c));
    }
    for &c in &order {
        ops.push(Op::Poll(c));
        ops.push(Op::cc(c, 6, m.below(128) as u8));
    }
    ops
}

fn many_pending_sub(ctx: &Ctx, prop: &'static str) -> Sub {
    let timeouts: Vec<u64> = if HAVE_CLOCK { vec![0, 1_000] } else { vec![0] };
    let reps = ctx.pick(3u64, 40, 400);
    let mut sub = Sub::new(
        "many_channels_pending",
        &format!("n = 1..=16 seed-chosen channels all brought into the value-pending phase (3 ways), time advanced by the timeout, every channel polled twice in another order, then fed again; {} repetitions per n and timeout {:?}; judged by the history observer", reps, timeouts),
        "non-trivial = every history (n >= 2 channels pending at once)",
        false,
    );
    let seed = ctx.sub_seed("many_channels_pending");
    let mut k = 0u64;
    for &t in &timeouts {
        for n in 1..=16usize {
            for r in 0..reps {
                k += 1;
                let ops = many_pending_history(n, splitmix(seed ^ k), t);
                let _ = r;
                sub.eval(
                    ops.len() as u128,
                    || poll_case_json(t, &ops),
                    || {
                        let mut st = PollStats::default();
                        run_observed(prop, t, &ops, true, &mut st)?;
                        ensure!(st.poll_reports as usize >= n || st.aborted_other_property, "many_pending/too_few_poll_reports", "{} channels pending, {} poll reports", n, st.poll_reports);
                        Ok(n >= 2)
                    },
                );
            }
        }
    }
    sub.samples.push(poll_case_json(0, &many_pending_history(16, 1, 0)));
    sub
}
