//! Byte-level entry points for the coverage-guided fuzz targets (style F). Bytes are decoded into
//! the same structured cases the proptest generators produce and judged by the same oracles.
use crate::engine::*;
use crate::ops::*;
use serde_json::{json, Value};

pub struct Cur<'a> {
    d: &'a [u8],
    i: usize,
}

impl<'a> Cur<'a> {
    pub fn new(d: &'a [u8]) -> Cur<'a> {
        Cur { d, i: 0 }
    }
    pub fn u8(&mut self) -> u8 {
        let b = self.d.get(self.i).copied().unwrap_or(0);
        self.i += 1;
        b
    }
    pub fn u16(&mut self) -> u16 {
        (self.u8() as u16) << 8 | self.u8() as u16
    }
    pub fn u64(&mut self) -> u64 {
        let mut v = 0u64;
        for _ in 0..8 {
            v = v << 8 | self.u8() as u64;
        }
        v
    }
    pub fn done(&self) -> bool {
        self.i >= self.d.len()
    }
}

/// header (7 bytes) + 4 bytes per operation
pub fn decode_history(kind: Kind, c: &mut Cur, max_ops: usize) -> RawHistory {
    let mask = c.u16();
    let palette = [c.u8() & 31, c.u8() & 31, c.u8() & 31];
    let preselect = c.u16();
    let mut raw = Vec::new();
    while !c.done() && raw.len() < max_ops {
        let k = c.u8();
        let (a, b, d) = (c.u8(), c.u8(), c.u8());
        let carrier = k & 3;
        let op = match (k >> 2, kind) {
            (0..=40, _) => RawOp::Contrib { sel: a, which: b, v: d & 127, carrier, link: d.rotate_left(3) ^ a },
            (41..=44, _) => RawOp::OtherCc { sel: a, cn: b & 127, v: d & 127, carrier },
            (45..=48, _) => RawOp::OtherChannelMsg { sel: a, hi: b % 7, d1: d & 127, d2: (d >> 1) & 127, carrier },
            (49..=50, _) => RawOp::System { lo: a & 15, d1: b & 127, d2: d & 127, carrier },
            (51, _) => RawOp::Reset,
            (52..=58, Kind::Polling) => RawOp::Poll { sel: a },
            (59..=63, Kind::Polling) => RawOp::Advance { which: a % 11, free: (b as u64) << 8 | d as u64 },
            _ => RawOp::Contrib { sel: a, which: b, v: d & 127, carrier, link: d.rotate_left(3) ^ a },
        };
        raw.push(op);
    }
    RawHistory { mask, palette, preselect, raw }
}

pub struct FuzzFail {
    pub prop: &'static str,
    pub sub: &'static str,
    pub case: Value,
    pub fail: Fail,
}

pub fn fuzz_cc14(data: &[u8]) -> Result<(), FuzzFail> {
    let mut c = Cur::new(data);
    let h = decode_history(Kind::Cc14, &mut c, 600);
    let ops = concretize(Kind::Cc14, &h, 0);
    crate::p_cc14::cc14_history_outcome(&ops).map(|_| ()).map_err(|fail| FuzzFail { prop: "C08", sub: "random_histories", case: json!({"kind": "history", "ops": ops_json(&ops)}), fail })
}

pub fn fuzz_nrpn(data: &[u8]) -> Result<(), FuzzFail> {
    let mut c = Cur::new(data);
    let h = decode_history(Kind::Nrpn, &mut c, 600);
    let ops = concretize(Kind::Nrpn, &h, 0);
    crate::p_nrpn::nrpn_history_outcome(&ops).map(|_| ()).map_err(|fail| FuzzFail { prop: "C11", sub: "random_histories", case: json!({"kind": "history", "ops": ops_json(&ops)}), fail })
}

#[cfg(feature = "hm_std")]
pub fn fuzz_polling(data: &[u8]) -> Result<(), FuzzFail> {
    use crate::p_polling::*;
    let mut c = Cur::new(data);
    let t = TIMEOUTS[(c.u8() % 8) as usize];
    let h = decode_history(Kind::Polling, &mut c, 600);
    let ops = concretize(Kind::Polling, &h, t);
    for prop in ["C14", "C13"] {
        let mut st = PollStats::default();
        run_observed(prop, t, &ops, true, &mut st).map_err(|fail| FuzzFail { prop, sub: "observed_histories", case: poll_case_json(t, &ops), fail })?;
    }
    Ok(())
}

#[cfg(feature = "hm_std")]
pub fn fuzz_grammar(data: &[u8]) -> Result<(), FuzzFail> {
    use crate::p_grammar::*;
    let mut c = Cur::new(data);
    let mask = c.u16();
    let timeout_idx = c.u8() % 5;
    let mut steps = Vec::new();
    while !c.done() && steps.len() < 500 {
        let k = c.u8();
        let st = match k >> 4 {
            0..=9 => GStep::Item { sel: c.u8(), kind: c.u8(), a: c.u16() & 16383, b: c.u8(), flag: k & 1 == 1 },
            10..=12 => GStep::Poll { sel: c.u8() },
            13..=14 => GStep::Advance { which: k & 7, free: c.u16() as u64 },
            _ => GStep::Noise { sel: c.u8(), k: c.u8(), x: c.u8(), y: c.u8() },
        };
        steps.push(st);
    }
    let s = RawSentence { mask, timeout_idx, steps };
    let (events, _) = build_sentence(&s);
    run_events(sentence_timeout(&s), &events).map_err(|fail| FuzzFail { prop: "C12", sub: "sentences", case: events_json(sentence_timeout(&s), &events), fail })
}

pub fn fuzz_meta(data: &[u8]) -> Result<(), FuzzFail> {
    use crate::p_meta::*;
    let mut c = Cur::new(data);
    let which = c.u8();
    let tidx = c.u8();
    let split = c.u8();
    macro_rules! go {
        ($S:ty) => {{
            let kind = <$S as Sc>::KIND;
            let t = meta_timeout::<$S>(tidx);
            let h = decode_history(kind, &mut c, 500);
            let ops = concretize(kind, &h, t);
            let name = <$S as Sc>::NAME;
            meta_projection::<$S>(t, &ops).map_err(|fail| FuzzFail { prop: "C15", sub: "interleavings", case: json!({"kind": "projection", "scanner": name, "timeout_ns": meta_tjson(t), "ops": ops_json(&ops)}), fail })?;
            let cut = (split as usize * (ops.len() + 1)) >> 8;
            let prefix: Vec<Op> = ops[..cut].iter().filter(|o| !matches!(o, Op::Reset)).cloned().collect();
            meta_reset_copy::<$S>(t, &prefix, &ops[cut..]).map_err(|fail| FuzzFail { prop: "C17", sub: "reset_and_copy", case: json!({"kind": "reset_copy", "scanner": name, "timeout_ns": meta_tjson(t), "prefix": ops_json(&prefix), "suffix": ops_json(&ops[cut..])}), fail })?;
            // insertions derived from the data itself
            let ins: Vec<(u16, u8, u8, u8, u8)> = data.chunks(5).take(8).map(|w| ((w[0] as u16) << 8 | *w.get(1).unwrap_or(&0) as u16, *w.get(2).unwrap_or(&0), *w.get(3).unwrap_or(&0), *w.get(4).unwrap_or(&0), w[0] ^ 0x5a)).collect();
            meta_insertion::<$S>(t, &ops, &ins).map_err(|fail| FuzzFail { prop: "C16", sub: "insertion", case: json!({"kind": "insertion", "scanner": name, "timeout_ns": meta_tjson(t), "ops": ops_json(&ops), "inserts": ins.iter().map(|i| json!([i.0, i.1, i.2, i.3, i.4])).collect::<Vec<_>>()}), fail })?;
            Ok(())
        }};
    }
    match which % 3 {
        0 => go!(helgoboss_midi::ControlChange14BitMessageScanner),
        1 => go!(helgoboss_midi::ParameterNumberMessageScanner),
        _ => {
            #[cfg(feature = "hm_std")]
            {
                go!(helgoboss_midi::PollingParameterNumberMessageScanner)
            }
            #[cfg(not(feature = "hm_std"))]
            {
                Ok(())
            }
        }
    }
}

#[cfg(feature = "hm_serde")]
pub fn fuzz_serde(data: &[u8]) -> Result<(), FuzzFail> {
    if data.is_empty() {
        return Ok(());
    }
    let types = ["RawShortMessage", "ControlChange14BitMessage", "ParameterNumberMessage", "StructuredShortMessage", "TimeCodeQuarterFrame", "U7", "U14"];
    let ty = types[data[0] as usize % types.len()];
    let text = match std::str::from_utf8(&data[1..]) {
        Ok(t) => t,
        Err(_) => return Ok(()),
    };
    crate::p_serde::fuzz_text(ty, text).map(|_| ()).map_err(|fail| FuzzFail { prop: "C19", sub: "json_text_specials", case: json!({"kind": "text", "type": ty, "text": text}), fail })
}

pub const TARGETS: [&str; 6] = ["hist_cc14", "hist_nrpn", "hist_polling", "hist_grammar", "meta", "serde_json"];

pub fn run_target(target: &str, data: &[u8]) -> Option<Result<(), FuzzFail>> {
    match target {
        "hist_cc14" => Some(fuzz_cc14(data)),
        "hist_nrpn" => Some(fuzz_nrpn(data)),
        #[cfg(feature = "hm_std")]
        "hist_polling" => Some(fuzz_polling(data)),
        #[cfg(feature = "hm_std")]
        "hist_grammar" => Some(fuzz_grammar(data)),
        "meta" => Some(fuzz_meta(data)),
        #[cfg(feature = "hm_serde")]
        "serde_json" => Some(fuzz_serde(data)),
        _ => None,
    }
}

/// entry used by the libFuzzer targets: a violation becomes a crash whose message names the property
pub fn fuzz_entry(target: &str, data: &[u8]) {
    install_panic_hook_passthrough();
    match guarded(|| run_target(target, data)) {
        Ok(Some(Ok(()))) | Ok(None) => {}
        Ok(Some(Err(f))) => {
            eprintln!("FUZZ-VIOLATION property={} sub={} sig={} :: {}", f.prop, f.sub, f.fail.sig, f.fail.detail);
            std::process::abort();
        }
        Err(p) => {
            eprintln!("FUZZ-VIOLATION property=C18 sub=panic sig=panic :: unexpected panic: {}", p);
            std::process::abort();
        }
    }
}

fn install_panic_hook_passthrough() {
    install_panic_hook();
}
