#!/usr/bin/env bash
# tools/mutant.sh <patch.diff> <Cxx> [<Cxx>...]
# Applies a patch to a scratch worktree of /repo (outside /repo and /verif), runs the repository's
# own test suite there (a mutant that fails it is "caught by the suite"), then runs the given quick
# checks against the scratch tree. Evidence/replays of these runs go to the scratch directory.
set -u
PATCH="$(readlink -f "$1")"; shift
S=/tmp/hm-mut
rm -rf "$S/repo" "$S/out"; mkdir -p "$S/out"
git -C /repo worktree prune
git -C /repo worktree add --detach "$S/repo" HEAD >/dev/null 2>&1 || { echo "worktree failed"; exit 2; }
cleanup() { git -C /repo worktree remove --force "$S/repo" >/dev/null 2>&1; git -C /repo worktree prune; }
trap cleanup EXIT
if ! git -C "$S/repo" apply "$PATCH"; then echo "MUTANT: patch does not apply"; exit 2; fi
if [ "${SKIP_BASELINE:-0}" != 1 ]; then
  if (cd "$S/repo" && CARGO_NET_OFFLINE=true cargo test --workspace --no-fail-fast --offline --target-dir "$S/baseline-target" >"$S/out/baseline.log" 2>&1); then
    echo "MUTANT: baseline suite passes ($(grep -c '\.\.\. ok' "$S/out/baseline.log") ok)"
  else
    echo "MUTANT: baseline suite FAILS or does not compile (caught by the suite)"; grep -E "^error|FAILED|failed" "$S/out/baseline.log" | head -5; exit 3
  fi
fi
for id in "$@"; do
  out="$(VERIF_REPO="$S/repo" VERIF_EVIDENCE_DIR="$S/out" VERIF_REPLAY_DIR="$S/out" /verif/check "$id" "${TIER:-quick}" 2>&1)"; rc=$?
  echo "MUTANT: $id rc=$rc $(echo "$out" | grep -c '^VIOLATION') violation line(s)"
  echo "$out" | grep -E "^\s+\[C|degenerate|infrastructure|error" | head -6
done
