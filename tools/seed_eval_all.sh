#!/usr/bin/env bash
# evaluates every seeded change under /tmp/seedwork/*/out not evaluated yet; $1 = worker index, $2 = workers
W="${1:-0}"; N="${2:-1}"
i=0
for d in /tmp/seedwork/C*/out; do
  id=$(basename $(dirname $d))
  for k in 1 2 3 4; do
    [ -f "$d/patch_$k.diff" ] || continue
    i=$((i+1))
    [ $((i % N)) -eq "$W" ] || continue
    name="$id-$k"; [ -n "${ROUND:-}" ] && name="$id-$ROUND-$k"
    [ -f "/verif/seeded/$name/eval.log" ] && grep -q "^check $id" "/verif/seeded/$name/eval.log" && continue
    SEED_SCRATCH=/tmp/hm-mut-w$W /verif/tools/seed_eval.sh $id $k
  done
done
echo "WORKER $W DONE"
