#!/usr/bin/env bash
# tools/refactor_eval.sh <A|B|C> <k>
# Takes the k-th behaviour-preserving refactoring written by a sub-agent (/tmp/refwork/<X>/out),
# stores it under /verif/refactorings/<X>-<k>/, applies it to a scratch worktree, runs the existing
# suite and then EVERY quick check against it. Any exit code other than 0 is a false alarm of the
# machinery (or a refactoring that is not behaviour-preserving - to be classified by hand).
set -u
X="$1"; K="$2"
SRC=/tmp/refwork/$X/out
DST=/verif/refactorings/$X-$K
mkdir -p "$DST"
if [ -f "$SRC/patch_$K.diff" ]; then cp "$SRC/patch_$K.diff" "$DST/patch.diff"; cp "$SRC/meta_$K.json" "$DST/meta.agent.json" 2>/dev/null; fi
[ -f "$DST/patch.diff" ] || { echo "no patch $X-$K"; exit 2; }
S=${REF_SCRATCH:-/tmp/hm-ref}
rm -rf "$S/repo" "$S/out"; mkdir -p "$S/out"
git -C /repo worktree prune
git -C /repo worktree add --detach "$S/repo" HEAD >/dev/null 2>&1 || { echo "worktree failed"; exit 2; }
cleanup() { git -C /repo worktree remove --force "$S/repo" >/dev/null 2>&1; git -C /repo worktree prune; }
trap cleanup EXIT
LOG="$DST/eval.log"; : > "$LOG"
if ! git -C "$S/repo" apply "$DST/patch.diff"; then echo "REF $X-$K: patch does not apply" | tee -a "$LOG"; exit 3; fi
if (cd "$S/repo" && CARGO_NET_OFFLINE=true cargo test --workspace --no-fail-fast --offline --target-dir "$S/baseline-target" >"$S/out/baseline.log" 2>&1); then
  echo "existing suite passes with the refactoring ($(grep -c '\.\.\. ok' "$S/out/baseline.log") ok)" >> "$LOG"
else
  echo "REF $X-$K: existing suite fails with the refactoring" | tee -a "$LOG"; exit 3
fi
RES=""; BAD=0
for i in $(seq -w 1 19); do
  id=C$i
  out="$(VERIF_REPO="$S/repo" VERIF_EVIDENCE_DIR="$S/out" VERIF_REPLAY_DIR="$S/out" /verif/check "$id" quick 2>&1)"; rc=$?
  echo "check $id quick: rc=$rc" >> "$LOG"
  if [ $rc -ne 0 ]; then
    BAD=1
    echo "$out" | grep -E "^\s+\[C[0-9]|degenerate|infrastructure|^error" | head -8 | cut -c1-500 >> "$LOG"
    cp "$S"/out/$id-*.json "$DST/" 2>/dev/null
  fi
  RES="$RES $id:$rc"
done
if [ $BAD -eq 0 ]; then echo "REF $X-$K: silent on all 19 checks"; else echo "REF $X-$K: ALARM:$RES"; fi
