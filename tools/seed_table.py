#!/usr/bin/env python3
"""Prints a markdown table of the seeded changes (for DESIGN.md)."""
import json, glob, os
rows = []
for d in sorted(glob.glob("/verif/seeded/C*")):
    m = json.load(open(os.path.join(d, "meta.json")))
    checks = ", ".join("%s:%s" % (k, "caught" if v["exit_code"] == 1 else ("missed" if v["exit_code"] == 0 else "infra")) for k, v in sorted(m["checks_against_patched_tree"].items()))
    summ = (m.get("summary") or "").replace("|", "/").replace("\n", " ")
    if len(summ) > 150:
        summ = summ[:147] + "..."
    rows.append("| %s | %s | %s |" % (m["id"], summ, checks))
print("| seeded change | what was changed (sub-agent's summary) | quick checks run against it |")
print("|---|---|---|")
print("\n".join(rows))
