#!/usr/bin/env bash
# round 6 (free choice of property): the property id comes from each meta_k.json
for W in A B C; do
  d=/tmp/seedwork/W$W/out
  for k in 1 2 3; do
    [ -f "$d/patch_$k.diff" ] || continue
    id=$(python3 -c "import json,re,sys; m=json.load(open('$d/meta_$k.json')); p=str(m.get('property','')); r=re.search(r'C\d\d', p); print(r.group(0) if r else 'C00')")
    name="$id-r6-$W$k"
    [ -f "/verif/seeded/$name/eval.log" ] && grep -q "^check $id" "/verif/seeded/$name/eval.log" && continue
    SEED_SRC=$d SEED_NAME=$name SEED_SCRATCH=/tmp/hm-mut-r6 /verif/tools/seed_eval.sh $id $k "$@"
  done
done
