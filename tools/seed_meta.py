#!/usr/bin/env python3
"""Writes seeded/<id>/meta.json from the sub-agent's meta and the evaluation log, trims the log."""
import json, glob, os, re
for d in sorted(glob.glob("/verif/seeded/C*-*")):
    agent = {}
    p = os.path.join(d, "meta.agent.json")
    if os.path.exists(p):
        try:
            agent = json.load(open(p))
        except Exception as e:
            agent = {"unparsed": open(p).read()[:2000]}
    log = os.path.join(d, "eval.log")
    lines = open(log).read().splitlines() if os.path.exists(log) else []
    keep = [l for l in lines if re.match(r"^(demo |existing suite|check |SEED |\s+\[C)", l)]
    checks = {}
    for l in keep:
        m = re.match(r"^check (C\d+) (\w+): rc=(\d+) violation_lines=(\d+)", l)
        if m:
            checks[m.group(1)] = {"tier": m.group(2), "exit_code": int(m.group(3)), "violation_lines": int(m.group(4))}
    name = os.path.basename(d)
    meta = {
        "id": name,
        "property": name.split("-")[0],
        "round": int(re.search(r"-r(\d+)-", name).group(1)) if re.search(r"-r(\d+)-", name) else 1,
        "written_by": "independent sub-agent that was given only the text of the property and a scratch worktree",
        "summary": agent.get("summary"),
        "needs_to_manifest": agent.get("needs"),
        "agent_commands": agent.get("commands"),
        "confirmed_by_me": [
            "tools/seed_eval.sh: scratch worktree of /repo (git worktree add --detach), demonstration copied to tests/seeded_demo.rs",
            "demonstration passes on the unchanged tree, fails with patch.diff applied (configuration recorded below)",
            "cargo test --workspace --no-fail-fast --offline passes with the patch (existing suite)",
            "VERIF_REPO=<scratch> ./check <property> quick run against the patched tree; scratch worktree and build output removed afterwards",
        ],
        "evaluation": [l for l in keep if not l.startswith("SEED")][:12],
        "checks_against_patched_tree": checks,
        "caught": any(c["exit_code"] == 1 for c in checks.values()),
        "caught_by_the_property_it_was_written_against": checks.get(name.split("-")[0], {}).get("exit_code") == 1,
    }
    json.dump(meta, open(os.path.join(d, "meta.json"), "w"), indent=1)
    with open(log, "w") as f:
        f.write("\n".join(keep) + "\n")
    print(name, "caught" if meta["caught"] else "MISSED", {k: v["exit_code"] for k, v in checks.items()})
