#!/usr/bin/env bash
# tools/matrix.sh [workers]
# Kill matrix: every seeded change (seeded/*/patch.diff) is applied to a scratch worktree of /repo
# and the quick checks of its *group* of related properties are run against it. Writes
# matrix/<seed>.txt ("<seed> C01=1 C02=0 ...", 1 = caught, 0 = silent, 2 = infrastructure).
# Location-independent: can run from a snapshot of /verif (vp run -- tools/matrix.sh).
set -u
HERE="$(cd "$(dirname "$(readlink -f "$0")")/.." && pwd)"
WORKERS="${1:-3}"
mkdir -p "$HERE/matrix"
group_of() {
  case "$1" in
    C01|C02|C03|C06) echo "C01 C02 C03 C06";;
    C04|C05) echo "C04 C05 C19";;
    C07|C08) echo "C07 C08 C15 C16 C17";;
    C09|C10|C11) echo "C09 C10 C11 C15 C16 C17";;
    C12|C13|C14) echo "C12 C13 C14 C15 C16 C17";;
    C15|C16|C17) echo "C08 C11 C13 C14 C15 C16 C17";;
    C18) echo "C18 C01 C05 C08 C13 C14";;
    C19) echo "C19 C04 C07 C09";;
  esac
}
worker() {
  local w="$1" i=0
  for d in "$HERE"/seeded/C*; do
    i=$((i+1)); [ $((i % WORKERS)) -eq "$w" ] || continue
    local name; name="$(basename "$d")"; local prop="${name%%-*}"
    [ -f "$HERE/matrix/$name.txt" ] && continue
    local S="/tmp/hm-matrix-w$w"
    rm -rf "$S/repo" "$S/out"; mkdir -p "$S/out"
    git -C /repo worktree prune
    git -C /repo worktree add --detach "$S/repo" HEAD >/dev/null 2>&1 || { echo "$name worktree-failed" > "$HERE/matrix/$name.txt"; continue; }
    if ! git -C "$S/repo" apply "$d/patch.diff" 2>/dev/null; then echo "$name patch-does-not-apply" > "$HERE/matrix/$name.txt"; git -C /repo worktree remove --force "$S/repo" >/dev/null 2>&1; continue; fi
    local line="$name"
    for id in $(group_of "$prop"); do
      VERIF_REPO="$S/repo" VERIF_EVIDENCE_DIR="$S/out" VERIF_REPLAY_DIR="$S/out" "$HERE/check" "$id" quick >/dev/null 2>&1; rc=$?
      line="$line $id=$rc"
    done
    echo "$line" > "$HERE/matrix/$name.txt"
    echo "$line"
    git -C /repo worktree remove --force "$S/repo" >/dev/null 2>&1
  done
  git -C /repo worktree prune
  rm -rf "/tmp/hm-matrix-w$w"
}
for w in $(seq 0 $((WORKERS-1))); do worker "$w" & done
wait
echo MATRIX DONE
