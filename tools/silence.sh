#!/usr/bin/env bash
# tools/silence.sh <tier> <seed>... : runs every check of the manifest on the unchanged tree with the
# given seeds; any non-zero exit is reported. Evidence of these runs goes to a scratch directory.
TIER="$1"; shift
OUT=/tmp/hm-silence; mkdir -p $OUT
for seed in "$@"; do
  for i in $(seq -w 1 19); do
    id=C$i
    o="$(VERIF_SEED=$seed VERIF_EVIDENCE_DIR=$OUT VERIF_REPLAY_DIR=$OUT /verif/check $id $TIER 2>&1)"; rc=$?
    if [ $rc -ne 0 ]; then echo "ALARM seed=$seed $id rc=$rc"; echo "$o" | tail -5; fi
  done
  echo "seed $seed done"
done
