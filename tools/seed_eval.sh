#!/usr/bin/env bash
# tools/seed_eval.sh <Cxx> <k> [extra property ids...]     (env ROUND=r2 -> stored as seeded/Cxx-r2-k)
# Takes the k-th seeded change written by a sub-agent for property Cxx (/tmp/seedwork/Cxx/out),
# stores it under /verif/seeded/Cxx-k/, confirms in a scratch worktree that (1) the patch applies,
# (2) the existing suite still passes, (3) the demonstration fails with the patch and passes
# without it, and then runs the quick check(s) against the patched scratch tree.
set -u
ID="$1"; K="$2"; shift 2
SRC="${SEED_SRC:-/tmp/seedwork/$ID/out}"
ROUND="${ROUND:-}"
if [ -n "${SEED_NAME:-}" ]; then DST=/verif/seeded/$SEED_NAME; elif [ -n "$ROUND" ]; then DST=/verif/seeded/$ID-$ROUND-$K; else DST=/verif/seeded/$ID-$K; fi
mkdir -p "$DST"
if [ -f "$SRC/patch_$K.diff" ]; then
  cp "$SRC/patch_$K.diff" "$DST/patch.diff"; cp "$SRC/demo_$K.rs" "$DST/demo.rs"; cp "$SRC/meta_$K.json" "$DST/meta.agent.json"
fi
[ -f "$DST/patch.diff" ] || { echo "no patch for $ID-$K"; exit 2; }
S=${SEED_SCRATCH:-/tmp/hm-mut}
rm -rf "$S/repo" "$S/out"; mkdir -p "$S/out"
git -C /repo worktree prune
git -C /repo worktree add --detach "$S/repo" HEAD >/dev/null 2>&1 || { echo "worktree failed"; exit 2; }
cleanup() { git -C /repo worktree remove --force "$S/repo" >/dev/null 2>&1; git -C /repo worktree prune; }
trap cleanup EXIT
LOG="$DST/eval.log"; : > "$LOG"
run_demo() { # returns 0 if demo passes
  local flags="$1" feats="$2"
  (cd "$S/repo" && RUSTFLAGS="$flags" CARGO_NET_OFFLINE=true cargo test --offline $feats --target-dir "$S/demo-target" --test seeded_demo >>"$LOG" 2>&1)
}
mkdir -p "$S/repo/tests"; cp "$DST/demo.rs" "$S/repo/tests/seeded_demo.rs"
# configurations in which the demo compiles and passes on the unchanged tree
OKCFGS=()
for cfg in "|" "--cfg helgoboss_midi_verif|" "|--features serde,serde_repr" "|--no-default-features" "--cfg helgoboss_midi_verif|--features serde,serde_repr" "|--release" "|--features serde" "|--release --no-default-features"; do
  flags="${cfg%%|*}"; feats="${cfg##*|}"
  if run_demo "$flags" "$feats"; then OKCFGS+=("$cfg"); fi
done
if [ ${#OKCFGS[@]} -eq 0 ]; then echo "SEED $ID-$K: demo does not pass on the unchanged tree in any configuration" | tee -a "$LOG"; exit 3; fi
echo "demo passes on the unchanged tree with: ${OKCFGS[*]}" >> "$LOG"
if ! git -C "$S/repo" apply "$DST/patch.diff"; then echo "SEED $ID-$K: patch does not apply" | tee -a "$LOG"; exit 3; fi
DEMO_CFG=""
for cfg in "${OKCFGS[@]}"; do
  flags="${cfg%%|*}"; feats="${cfg##*|}"
  if ! run_demo "$flags" "$feats"; then DEMO_CFG="$cfg"; break; fi
done
if [ -z "$DEMO_CFG" ]; then echo "SEED $ID-$K: demo still passes WITH the patch in every configuration (not a demonstration)" | tee -a "$LOG"; exit 3; fi
echo "demo fails with the patch in configuration [$DEMO_CFG]" >> "$LOG"
rm -f "$S/repo/tests/seeded_demo.rs"
# existing suite and the other build configurations
if (cd "$S/repo" && CARGO_NET_OFFLINE=true cargo test --workspace --no-fail-fast --offline --target-dir "$S/baseline-target" >"$S/out/baseline.log" 2>&1); then
  NOK=$(grep -c '\.\.\. ok' "$S/out/baseline.log"); echo "existing suite passes with the patch ($NOK ok)" >> "$LOG"
else
  echo "SEED $ID-$K: existing suite fails with the patch" | tee -a "$LOG"; exit 3
fi
RES=""
for id in "$ID" "$@"; do
  out="$(VERIF_REPO="$S/repo" VERIF_EVIDENCE_DIR="$S/out" VERIF_REPLAY_DIR="$S/out" /verif/check "$id" "${TIER:-quick}" 2>&1)"; rc=$?
  n=$(echo "$out" | grep -c '^VIOLATION')
  echo "check $id ${TIER:-quick}: rc=$rc violation_lines=$n" >> "$LOG"
  echo "$out" | grep -E "^\s+\[C|degenerate|infrastructure|error" | head -8 | cut -c1-400 >> "$LOG"
  RES="$RES $id:rc=$rc"
done
echo "SEED $ID-$K: confirmed (demo cfg [$DEMO_CFG]); checks:$RES"
