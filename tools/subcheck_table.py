#!/usr/bin/env python3
"""Prints a markdown list of the sub-checks of every property from the current evidence files."""
import json, glob
for p in sorted(glob.glob("/verif/evidence/C*.json")):
    e = json.load(open(p))
    c = e["coverage"]
    print("\n**%s** - tier %s, configurations %s, %d evaluations, %d distinct non-trivial, wall %.0f s\n" % (e["property_id"], e["tier"], ", ".join(map(str, c.get("configurations", []))), c["evaluations"], c["distinct_nontrivial"], e["wall_s"]))
    seen = set()
    for s in c["subchecks"]:
        name = s["name"]
        if e["property_id"] == "C18":
            name = name.split("/")[0] + "/*" if "/" in name else name
        import re
        gen = re.sub(r"(ControllerNumber|KeyNumber|Channel|U14|U7|U4)", "<T>", name)
        gen = re.sub(r"_(u8|i8|u16|i16|u32|i32|u64|i64|u128|i128|usize|isize)_", "_<prim>_", gen)
        gen = re.sub(r"pair_(Raw|Structured|ForeignTuple|Foreign)_(Raw|Structured|ForeignTuple|Foreign)", "pair_<A>_<B>", gen)
        gen = re.sub(r"^(named|shorthand)_.*", r"\1_<constructor>", gen)
        name = gen
        key = (gen,)
        if key in seen:
            continue
        seen.add(key)
        dom = s["domain"] if e["property_id"] != "C18" or "/" not in s["name"] else "workload of %s re-run under the allocation counter / panic monitor" % s["name"].split("/")[0]
        if len(dom) > 260:
            dom = dom[:257] + "..."
        print("* `%s` (%s%s): %s" % (name, "exhaustive" if s.get("exhaustive") else "sampled / bounded", ", %d states" % s["states"] if s.get("states") else "", dom))
