#!/usr/bin/env bash
# free-choice rounds (6, 7, 8): ROUND_NO=<n> tools/seed_eval_free.sh; the property id comes from each meta_k.json
for W in A B C; do
  d=/tmp/seedwork/W$W/out
  for k in 1 2 3; do
    [ -f "$d/patch_$k.diff" ] || continue
    id=$(python3 -c "import json,re,sys; m=json.load(open('$d/meta_$k.json')); p=str(m.get('property','')); r=re.search(r'C\d\d', p); print(r.group(0) if r else 'C00')")
    name="$id-r${ROUND_NO:-8}-$W$k"
    [ -f "/verif/seeded/$name/eval.log" ] && grep -q "^check $id" "/verif/seeded/$name/eval.log" && continue
    SEED_SRC=$d SEED_NAME=$name SEED_SCRATCH=/tmp/hm-mut-free /verif/tools/seed_eval.sh $id $k "$@"
  done
done
