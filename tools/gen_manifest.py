#!/usr/bin/env python3
"""Generates /verif/MANIFEST.json from the table below (kept in one place so that the manifest is
always valid and in step with what ./check implements)."""
import json, os, sys

VERIF = os.path.dirname(os.path.dirname(os.path.abspath(__file__)))

# id -> (implemented, technique, level text, level note, design ref)
CHECKS = {
    "C01": (True,
            "exhaustive enumeration (all 2^22 triples x 4 implementations + a precondition-reliant third-party factory + concrete-path calls + compile-time probes for further implementors; all 1331461 structured values) against a hand-written MIDI 1.0 table; round-trip oracles; scattered-order pass from fresh threads; three build configurations",
            "Exhaustive for the stated finite domain: every (status,d1,d2) triple through every factory implementation and every StructuredShortMessage value is round-tripped and compared with an independent canonical-form table. Exploration level because the oracle is executable testing, but the domain is enumerated completely.",
            "Trusts the harness's literal MIDI 1.0 table (refmodel.rs) and that the two harness-defined foreign implementors are representative of third-party implementors.",
            "DESIGN.md 4/C01"),
    "C02": (True,
            "exhaustive enumeration of all 2^21 valid triples x 4 implementations x 19 observables (trait path and concrete method-call path) against a literal MIDI 1.0 status table; scattered-order pass from fresh threads; three build configurations",
            "Exhaustive for the stated domain; each accessor/classifier result is compared with a table written from the MIDI 1.0 specification, not from the crate.",
            "Trusts the literal table in refmodel.rs (Channel Mode = CC 120-127).",
            "DESIGN.md 4/C02"),
    "C03": (True,
            "exhaustive differential testing: all valid triples x all 16 ordered pairs of 4 implementations, every trait observable compared across to_other/from_other/to_structured",
            "Exhaustive for triples x implementation pairs; differential/metamorphic oracle needs no model: the converted message must observe like its source, byte observables modulo the documented zeroing by StructuredShortMessage.",
            "Third-party implementors are represented by two harness-defined types (getters only; getters + to_bytes override).",
            "DESIGN.md 4/C03"),
    "C04": (True,
            "exhaustive enumeration of every 8/16-bit source value, every newtype value and all 41371 strings of the parsing alphabet up to length 4; boundary + seeded random generation for 32/64/128-bit sources; validity-predicate oracle (get() <= MAX, acceptance iff mathematically in range) in two feature configurations (std, no default features)",
            "Exhaustive for the 8- and 16-bit domains and the bounded string domain, sampled (boundaries, powers of two +-1, wrap-around aliases, seeded random) for wider sources; the same sweep is built and run against helgoboss-midi with and without the std feature and the check passes only if both do.",
            "The table of conversion impls is hand-written from src/*_mod.rs (an impl added later is not covered); range checks on values produced by factories/encoders/scanners are additionally asserted inside the checks of C01-C03, C06-C17.",
            "DESIGN.md 4/C04"),
    "C05": (True,
            "exhaustive enumeration (every value of each newtype x every target primitive, every 8/16-bit source, all strings up to length 4, all pairs for ordering of the u8-backed types) with a u128 arithmetic oracle and a hand-written decimal parser/printer; seeded random + boundary generation for wide sources",
            "Exhaustive where the domain is small, sampled for 32-128-bit sources and (quick tier) for U14 ordering pairs; oracle is independent arithmetic.",
            "Accepted numeral syntax is the one the property states (digits, optional leading '+'); conversion table hand-written.",
            "DESIGN.md 4/C05"),
    "C06": (True,
            "exhaustive enumeration of all argument tuples of the 19 named and 3 generic constructors for 4 implementations (generic trait path and concrete-type path); boundary/dimension sweeps (thorough: full product) of the test_util shorthands; oracle = expected bytes by integer arithmetic + reference decoding; expected-panic oracle for wrong categories / out-of-range primitives; three build configurations incl. a release build without debug assertions",
            "Exhaustive over the argument domains of the constructors for Raw, Structured and two foreign implementors; shorthands over complete per-dimension sweeps.",
            "Trusts the literal MIDI 1.0 tables in refmodel.rs.",
            "DESIGN.md 4/C06"),
    "C07": (True,
            "exhaustive enumeration of all 8388608 messages (encode into 4 implementations, decode from a fresh scanner), decoding after prior state with 7 follow-up variants (quick: 4 seed-chosen of 4097 states per message; thorough: all 4097 states x all messages of a channel = 2.1e9), proptest random 16-channel prefix histories; round-trip oracle; second configuration (serde): creation by deserialization accepted exactly for MSB controllers 0-31",
            "Exhaustive for encoding and decode-from-fresh; decode-from-any-reachable-single-channel-state exhaustive in the thorough tier, sampled in quick; multi-channel prefixes sampled.",
            "Reachable per-channel states are the 4097 found by the C08 fixpoint.",
            "DESIGN.md 4/C07"),
    "C08": (True,
            "bounded-exhaustive sequence generation (BFS over operation sequences with (scanner Debug, reference state) pruning to a fixpoint: covers histories of every length) + repetition probes (every operation repeated 255-257 / 65535-65537 times from every fixpoint state, against wrapping counters) + proptest random histories over the full 16-channel alphabet with shrinking and value coupling; oracle = reference scanner written from the property statement",
            "Fixpoint over the complete single-channel contributing alphabet in the thorough tier (4097 states x 8197 inputs), value-abstracted in quick; full-alphabet multi-channel histories sampled.",
            "Pruning trusts that derived Debug prints the scanner's whole state.",
            "DESIGN.md 4/C08"),
    "C09": (True,
            "exhaustive per-dimension sweeps + seeded uniform sampling of the 10^10 product (quick); the complete product in the thorough tier (1.7e10 fourteen-bit encodes, all seven-bit messages); arithmetic oracle for the expected Control Change sequence",
            "Quick: every number, every value, every channel swept with the others at boundaries plus 2M random tuples; thorough: the full product for RawShortMessage and a 1/64 stride for the other implementations.",
            "Controller assignment literals as stated in the property.",
            "DESIGN.md 4/C09"),
    "C10": (True,
            "seeded generation over the (N)RPN message space x constructed prior scanner states, every state of the abstract fixpoint x a message grid, long repetitions (250-260 / 65530-65540) before the message, proptest random prior histories; running forms of k items; round-trip oracle on both the reference encoding and the output of the crate's own encoder",
            "Sampled: 400k messages x prior states (quick), 10M (thorough); 30k random histories; 30k running forms.",
            "Only the documented sequence forms are generated (LSB-first 14-bit, homogeneous running forms).",
            "DESIGN.md 4/C10"),
    "C11": (True,
            "bounded-exhaustive sequence generation (BFS to a fixpoint on one and two channels over a value-abstracted alphabet incl. every non-(N)RPN controller) + repetition probes + every constructed per-channel state x every next input (thorough: all 129^3 x 8 states x 778 inputs = 6.9e9) + proptest random histories over the full alphabet; oracle = reference scanner of history facts from the property statement",
            "Fixpoint covers histories of every length over the abstract alphabet (128 states per channel, 16384 for two channels); full alphabet sampled.",
            "Pruning trusts derived Debug; abstraction collapses values to {0,1,127}.",
            "DESIGN.md 4/C11"),
    "C12": (True,
            "grammar-based generation: sentences of the documented sequence grammar are constructed by a per-channel simulation that also computes the denotation (exact expected output of every feed/poll); proptest over 1-16 interleaved channels, explicit mock-clock time steps and poll placements; bounded-exhaustive BFS over sentences to a fixpoint on one channel; encode->feed->poll round trip from random prior states",
            "Sampled over full values / 16 channels / 4 timeouts; fixpoint over an abstract alphabet covers sentences of every length on one channel for timeouts 0 and 3 ns.",
            "Only documented forms are generated (late polls only at unit boundaries); mock clock replaces std::time::Instant under the cfg hook.",
            "DESIGN.md 4/C12"),
    "C13": (True,
            "stateful property-based testing with an explicit (mock) clock: proptest histories of feeds/polls/time steps below, at and above the timeout (timeouts 0, 1 ns, 1 ms, 10 s, 10^18+1 ns, 2^64 ns, u64::MAX s, Duration::MAX; clock jumps up to 2^32 s; three clock epochs) judged by a history observer that decides every poll exactly; BFS fixpoints of (scanner, observer) with timeout 3 ns and with a frozen clock + repetition probes; constructed state x input over all 128 x 128 data bytes; 1..16 channels pending at once; scenario families (unpaired LSB, early-poll twin, poll once, time invisible to feed)",
            "Sampled histories for timeouts {0, 1 ns, 1 ms, 10 s, Duration::MAX}; fixpoints over an abstract alphabet on one channel.",
            "Time only advances; style-B keys cap ages at 2T+2 (sound for code that compares elapsed time with the timeout once).",
            "DESIGN.md 4/C13"),
    "C14": (True,
            "stateful property-based testing: proptest histories over the full alphabet incl. malformed traffic, polls, resets and time (value coupling, MIDI-spec constants, eight timeouts), every call judged by history-observer invariants (channel, number/kind, value provenance, no duplicate, no loss, result shape); BFS fixpoints of (scanner, observer) + repetition probes; constructed state x input; 1..16 channels pending at once",
            "Sampled over 16 channels and full values; fixpoint over an abstract alphabet on one channel (timeouts 0 and 3 ns).",
            "The observer asserts only what the property states for malformed traffic.",
            "DESIGN.md 4/C14"),
    "C15": (True,
            "differential / metamorphic testing with a projection oracle: proptest interleavings of up to 16 per-channel histories for all three scanners (each channel's calls must give the same outputs on a scanner of its own); BFS two-channel products (16-31 pairs quick, all 240 ordered pairs thorough)",
            "Sampled interleavings over the full alphabet; two-channel products to a fixpoint for the non-polling scanners, state-capped for the polling scanner in the quick tier.",
            "Products use an abstract alphabet (values {0,1}).",
            "DESIGN.md 4/C15"),
    "C16": (True,
            "exhaustive enumeration of (reachable pool state x non-contributing message) pairs and of the predicates over all 128 controller numbers; converse check that every accepted controller matters; proptest metamorphic insertion of non-contributing messages into random histories",
            "Exhaustive over the pool (single-channel fixpoint states, abstract values) x ~250k non-contributing messages per channel; literal sets for the predicates.",
            "Pool states come from abstract fixpoints; full-alphabet states only through the random insertion sub-check.",
            "DESIGN.md 4/C16"),
    "C17": (True,
            "differential testing: every fixpoint pool state reset and compared (==, and on abstract continuations) with a new scanner of the same timeout; proptest prefix/suffix histories for reset and for copy-vs-original; new() vs default()",
            "Exhaustive over the abstract pool states; sampled prefixes/suffixes over the full alphabet and timeouts {0, 1 ns, 1 ms, 10 s, MAX}.",
            "Equality is the scanners' derived PartialEq.",
            "DESIGN.md 4/C17"),
    "C19": (True,
            "exhaustive enumeration of every u16/u8/i8/i16 through serde's typed primitive deserializers and JSON for the six integer types, of every u8 for ShortMessageType, of boundary-abstracted field combinations (17 values per field, all variants, seq/map/missing/extra forms) for the composite types; proptest random value trees shaped like each type; oracle = validity predicate (value equals what the checked constructors build from its own accessors) + round trip of valid values",
            "Exhaustive over the integer domains and the abstracted composite domains; random trees sampled; configuration features std + serde + serde_repr.",
            "Generic deserializer = serde_json::Value and JSON text (self-describing); typed visits only through serde's primitive value deserializers.",
            "DESIGN.md 4/C19"),
    "C18": (True,
            "generated-input search under an allocation-counting global allocator and a panic monitor: the (reduced; thorough: full quick) exhaustive domains, BFS fixpoints and proptest histories of C01-C17 are re-run in a build with opt-level 0, overflow checks and debug assertions, in two configurations (mock clock; guard off with the real std::time::Instant), plus formatting sweeps of the integer and error types into a stack buffer; oracle: allocation count inside crate calls == 0 and no panic outside calls made expecting one",
            "Established for the executed paths only; the workloads cover every match arm of every scanner (class histograms in the evidence).",
            "Generic crate functions are monomorphised in the harness crate, so the harness is built at opt-level 0 too; allocations by serde deserialization are out of scope.",
            "DESIGN.md 4/C18"),
}

ALL = ["C%02d" % i for i in range(1, 20)]


def main():
    checks = []
    na = []
    for pid in ALL:
        c = CHECKS.get(pid)
        if not c or not c[0]:
            na.append({"property_id": pid,
                       "reason": "check not yet built in this commit (planned, see DESIGN.md section 4); property-based testing applies to it"})
            continue
        _, technique, text, note, ref = c
        checks.append({
            "property_id": pid,
            "quick_cmd": "./check %s quick" % pid,
            "thorough_cmd": "./check %s thorough" % pid,
            "evidence_file": "/verif/evidence/%s.json" % pid,
            "replay_cmd_template": "./check %s --replay {path}" % pid,
            "engine": "vcheck",
            "level_claimed": {"category": "exploration", "text": text, "design_ref": ref},
            "level_note": note,
            "technique": technique,
        })
    hooks_commits = []
    p = os.path.join(VERIF, "tools", "hook_commits.txt")
    if os.path.exists(p):
        hooks_commits = [l.split()[0] for l in open(p) if l.strip() and not l.startswith("#")]
    m = {
        "version": 1,
        "setup_cmd": "./check --setup",
        "hooks": {
            "guard": "helgoboss_midi_verif",
            "enable": "RUSTFLAGS=\"--cfg helgoboss_midi_verif\" (rustc cfg flag; set by ./check for the configurations main, lowopt and fuzz)",
            "baseline_off_cmd": "cd /repo && cargo test --workspace --no-fail-fast --offline",
            "source_commits": hooks_commits,
            "add_only": True,
        },
        "engines": [
            {"name": "vcheck", "path": "/verif/harness",
             "serves_properties": [c["property_id"] for c in checks],
             "kind_free_text": "Rust harness binary: exhaustive enumerators, bounded-exhaustive BFS over operation sequences with state pruning, proptest TestRunner (seeded, shrinking), explicit oracles/reference models; allocation + panic monitor"},
        ],
        "checks": checks,
        "not_applicable": na,
        "notes": "Driver: ./check <id> quick|thorough|--replay <file>; exit 0 held / 1 VIOLATION / 2 infrastructure. Build configurations of helgoboss-midi per check (a check passes only if every configuration passes): main = std + hook (all); nostd = no default features (C01-C11, C15-C17); plain = ordinary release build without debug assertions / overflow checks (C01-C17); plainnostd = plain x no default features (C01, C04-C06); serde = std + serde + serde_repr (C04, C07, C09, C19); serdenostd and serdeonly (C19); lowopt / lowopt-realclock = opt-level 0 with mock / real clock (C18). Known findings: /verif/known_findings.txt. Replays: /verif/replays/. VERIF_SEED seeds every random choice.",
    }
    if not na:
        m["not_applicable"] = []
    with open(os.path.join(VERIF, "MANIFEST.json"), "w") as f:
        json.dump(m, f, indent=1)
        f.write("\n")
    try:
        import jsonschema
        jsonschema.validate(m, json.load(open("/root/.vp/MANIFEST.schema.json")))
        print("MANIFEST.json valid; checks:", len(checks), "not_applicable:", len(na))
    except ImportError:
        print("jsonschema not available; wrote MANIFEST.json unvalidated")


if __name__ == "__main__":
    main()
