#!/usr/bin/env python3
"""Writes matrix/MATRIX.md from matrix/<seed>.txt (produced by tools/matrix.sh)."""
import glob, os, re

HERE = os.path.dirname(os.path.dirname(os.path.realpath(__file__)))
rows = {}
for p in sorted(glob.glob(os.path.join(HERE, "matrix", "C*.txt"))):
    parts = open(p).read().split()
    if not parts:
        continue
    rows[parts[0]] = dict(x.split("=") for x in parts[1:] if "=" in x)
ids = ["C%02d" % i for i in range(1, 20)]


def rnd(name):
    m = re.search(r"-r(\d+)-", name)
    return int(m.group(1)) if m else 1


def key(name):
    return (name.split("-")[0], rnd(name), name)


L = ["# Kill matrix: seeded changes x quick checks of the related properties\n"]
L.append(
    "Produced by `tools/matrix.sh` (every seeded change applied to a scratch worktree, the quick checks of its group of related "
    "properties run against it) and `tools/matrix_table.py`. Rows of rounds 1-4 were produced from a snapshot of /verif at commit "
    "3552e02 (before the round-5 seeds and before the BFS state caps were lowered); rows of rounds 5-9 with the final checks. "
    "`X` = the check reports a violation on the tree with the change, `.` = silent, `?` = exit 2 (no verdict: watchdog - the change "
    "multiplies the scanner's state space; with the lowered caps these runs finish, C08 against C08-r2-2 now exits 1 after ~170 s - "
    "or a degenerate generator), blank = not run (other property group).\n"
)
L.append("| seeded change | " + " | ".join(ids) + " |")
L.append("|---|" + "---|" * len(ids))
sym = {"1": "X", "0": ".", "2": "?"}
n = 0
for name in sorted(rows, key=key):
    r = rows[name]
    L.append("| %s | " % name + " | ".join(sym.get(r.get(i, ""), " " if i not in r else "?") for i in ids) + " |")
    n += len(r)
caught_elsewhere = sum(1 for name, r in rows.items() if sum(1 for v in r.values() if v == "1") >= 2)
L.append("\n%d seeded changes, %d check runs; %d changes are reported by two or more different checks.\n" % (len(rows), n, caught_elsewhere))
open(os.path.join(HERE, "matrix", "MATRIX.md"), "w").write("\n".join(L))
print(len(rows), "rows", n, "runs")
