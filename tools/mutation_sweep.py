#!/usr/bin/env python3
"""tools/mutation_sweep.py list|run|report ...

Operator-level mutation sweep: a systematic complement to the seeded changes written by sub-agents
(DESIGN.md B.5). Every mutant is one token-level change of the non-test code of /repo/src
(relational / arithmetic / logical operator swapped, integer literal +-1, true<->false, `!` dropped,
`..=` <-> `..`, is_some <-> is_none, min <-> max, a `self....;` statement deleted).

  list                      print the number of mutants per file and operator
  run <n> <seed> [workers]  sample n mutants (seeded), and for each one, in a scratch worktree of
                            /repo under /tmp (never in /repo itself):
                              1. `cargo build` - a mutant that does not compile is discarded;
                              2. the repository's own test suite - a mutant it kills is not ours;
                              3. the quick checks of the properties anchored in the mutated file
                                 (properties.jsonl: anchors.files), primary build configuration only,
                                 cheapest first, stopping at the first check that exits 1.
                            Results are appended to mutation/results.jsonl (one line per mutant).
  report                    writes mutation/MUTATION.md from results.jsonl

A surviving mutant is either equivalent (no observable change of behaviour) or a gap of the checks;
each one is classified by hand in MUTATION.md / DESIGN.md B.8.
"""
import hashlib, json, os, random, re, subprocess, sys, threading, time

HERE = os.path.dirname(os.path.dirname(os.path.realpath(__file__)))
REPO = "/repo"
OUT = os.path.join(HERE, "mutation")
SKIP_FILES = {"verif_hooks.rs"}

REL = {"==": ["!="], "!=": ["=="], "<": ["<=", ">="], "<=": ["<", ">"], ">": [">=", "<="], ">=": [">", "<"]}
BIN = {"+": ["-"], "-": ["+"], "*": ["+"], "/": ["*"], "<<": [">>"], ">>": ["<<"], "&": ["|"], "|": ["&"], "&&": ["||"], "||": ["&&"], "^": ["|"]}
WORDS = {"true": "false", "false": "true", "is_some": "is_none", "is_none": "is_some", "min": "max", "max": "min"}


SIBLINGS = [
    ("msb", "lsb"), ("lsb", "msb"), ("Msb", "Lsb"), ("Lsb", "Msb"), ("MSB", "LSB"), ("LSB", "MSB"),
    ("data_byte_1", "data_byte_2"), ("data_byte_2", "data_byte_1"),
    ("Increment", "Decrement"), ("Decrement", "Increment"), ("INCREMENT", "DECREMENT"), ("DECREMENT", "INCREMENT"),
    ("DataEntry\\b", "DataIncrement"), ("NoteOn", "NoteOff"), ("NoteOff", "NoteOn"),
    ("NON_REGISTERED", "REGISTERED"), ("(?<!NON_)REGISTERED", "NON_REGISTERED"),
    (r"(?<=[\w)])\.0\b", ".1"), (r"(?<=[\w)])\.1\b", ".0"), (r"(?<=[\w)])\.2\b", ".1"),
    ("Start\\b", "Stop"), ("Continue\\b", "Start"),
    ("high_nibble", "low_nibble"), ("low_nibble", "high_nibble"),
]


def code_part(line):
    """the part of a line that is code (cuts a trailing // comment; good enough for this crate)"""
    i = line.find("//")
    return line if i < 0 else line[:i]


def mutants_of_file(path):
    rel = os.path.relpath(path, REPO)
    lines = open(path).read().split("\n")
    out = []
    in_test = False
    in_doc_string = False
    for ln, line in enumerate(lines):
        s = line.strip()
        if s.startswith("#[cfg(test)]"):
            in_test = True
        if in_test:
            continue
        if s.startswith("//") or s.startswith("#[") or s.startswith("#!["):
            continue
        # doc strings inside the newtype macros (lines of a concat!(...) literal)
        if s.startswith('"') or in_doc_string:
            q = s.count('"')
            if q % 2 == 1:
                in_doc_string = not in_doc_string
            continue
        code = code_part(line)
        if '"' in code:
            # do not touch string literals: only mutate the part before the first quote
            code = code[: code.find('"')]

        def add(col, old, new, op):
            out.append({"file": rel, "line": ln + 1, "col": col, "old": old, "new": new, "op": op, "text": line.strip()[:120]})

        for m in re.finditer(r" (==|!=|<=|>=|<|>) ", code):
            for new in REL[m.group(1)]:
                add(m.start(1), m.group(1), new, "relational")
        for m in re.finditer(r" (\+|-|\*|/|<<|>>|&&|\|\||&|\||\^) ", code):
            for new in BIN[m.group(1)]:
                add(m.start(1), m.group(1), new, "binary")
        for m in re.finditer(r"(?<![\w.])(0x[0-9a-fA-F]+|\d+)(?![\w.]*\w)", code):
            tok = m.group(1)
            if tok.startswith("0x"):
                v = int(tok, 16)
                fmt = lambda x: "0x%X" % x if tok[2:].isupper() else "0x%x" % x
            else:
                v = int(tok)
                fmt = str
            add(m.start(1), tok, fmt(v + 1), "literal+1")
            if v > 0:
                add(m.start(1), tok, fmt(v - 1), "literal-1")
        for m in re.finditer(r"\b(true|false|is_some|is_none|min|max)\b", code):
            if m.group(1) in ("min", "max") and not code[m.end():].startswith("("):
                continue
            add(m.start(1), m.group(1), WORDS[m.group(1)], "word")
        for m in re.finditer(r"(?<![\w)\]])!(?=[A-Za-z_(])", code):
            add(m.start(), "!", "", "negation_dropped")
        for m in re.finditer(r"(?<=[\w)])\.\.=(?=[\w(])", code):
            add(m.start(), "..=", "..", "range")
        for m in re.finditer(r"(?<=[\w)])\.\.(?=[\w(])", code):
            add(m.start(), "..", "..=", "range")
        if re.match(r"^\s*(?!let |return |use |pub |type |const |break|continue)[a-z_][\w.\[\]]*(\(.*\))?( [-+|&]?= .*)?;\s*$", code):
            col = len(line) - len(line.lstrip())
            add(col, line.strip(), "", "statement_deleted")
        m = re.match(r"^(\s*(?:\} else )?if )((?!let ).+)( \{)\s*$", code)
        if m:
            add(m.start(2), m.group(2), "true", "condition_true")
            add(m.start(2), m.group(2), "false", "condition_false")
        # sibling identifiers / variants swapped (one occurrence at a time): msb <-> lsb inside any
        # identifier, data bytes, increment <-> decrement, note on <-> off, tuple fields .0 <-> .1
        for a, b in SIBLINGS:
            for m in re.finditer(a, code):
                add(m.start(), m.group(0), b, "sibling_swap")
        for m in re.finditer(r"\.take\(\)", code):
            add(m.start(), ".take()", "", "take_dropped")
        for m in re.finditer(r"(?<=[:=] )Some\((?:[^()]|\([^()]*\))*\)(?=[,;]\s*$)", code):
            add(m.start(), m.group(0), "None", "some_to_none")
    for i, m in enumerate(out):
        m["id"] = hashlib.sha1(("%s:%d:%d:%s:%s" % (m["file"], m["line"], m["col"], m["old"], m["new"])).encode()).hexdigest()[:10]
    return out


def all_mutants():
    res = []
    for f in sorted(os.listdir(os.path.join(REPO, "src"))):
        if f.endswith(".rs") and f not in SKIP_FILES:
            res += mutants_of_file(os.path.join(REPO, "src", f))
    return res


def anchors():
    a = {}
    for l in open(os.path.join(HERE, "properties.jsonl")):
        p = json.loads(l)
        for f in p["anchors"]["files"]:
            a.setdefault(f, []).append(p["id"])
    return a


# cheapest first (measured quick-tier times, primary configuration)
COST = ["C02", "C06", "C07", "C09", "C10", "C05", "C03", "C04", "C08", "C11", "C17", "C16", "C14", "C13", "C12", "C15", "C01", "C19", "C18"]


def apply_mutant(root, m):
    p = os.path.join(root, m["file"])
    lines = open(p).read().split("\n")
    line = lines[m["line"] - 1]
    assert line[m["col"]: m["col"] + len(m["old"])] == m["old"], (m, line)
    lines[m["line"] - 1] = line[: m["col"]] + m["new"] + line[m["col"] + len(m["old"]):]
    open(p, "w").write("\n".join(lines))


def sh(cmd, cwd=None, env=None, timeout=3600):
    e = dict(os.environ)
    e["CARGO_NET_OFFLINE"] = "true"
    if env:
        e.update(env)
    try:
        r = subprocess.run(cmd, cwd=cwd, env=e, stdout=subprocess.PIPE, stderr=subprocess.STDOUT, timeout=timeout)
        return r.returncode, r.stdout.decode(errors="replace")
    except subprocess.TimeoutExpired:
        return 124, "timeout"


def worker(w, queue, lock, anchor_map, done_ids, results_name="results.jsonl", skip_suite=False):
    S = "/tmp/hm-msweep-w%d" % w
    root = os.path.join(S, "repo")
    subprocess.run(["git", "-C", REPO, "worktree", "remove", "--force", root], stdout=subprocess.DEVNULL, stderr=subprocess.DEVNULL)
    subprocess.run(["git", "-C", REPO, "worktree", "prune"])
    os.makedirs(S + "/out", exist_ok=True)
    rc, o = sh(["git", "-C", REPO, "worktree", "add", "--detach", root, "HEAD"])
    if rc != 0:
        print("worker", w, "worktree failed", o)
        return
    try:
        while True:
            with lock:
                if not queue:
                    break
                m = queue.pop()
            if m["id"] in done_ids:
                continue
            t0 = time.time()
            sh(["git", "-C", root, "checkout", "--", "."])
            apply_mutant(root, m)
            res = dict(m)
            rc, o = sh(["cargo", "build", "--offline", "--target-dir", S + "/t"], cwd=root)
            if rc != 0:
                res["outcome"] = "does_not_compile"
            else:
                rc, o = (0, "") if skip_suite else sh(["cargo", "test", "--workspace", "--no-fail-fast", "--offline", "--target-dir", S + "/t"], cwd=root, timeout=1200)
                if rc != 0:
                    res["outcome"] = "killed_by_existing_suite"
                else:
                    props = sorted(set(anchor_map.get(m["file"], [])), key=COST.index)
                    res["checks"] = {}
                    res["outcome"] = "survived"
                    for pid in props:
                        env = {"VERIF_REPO": root, "VERIF_EVIDENCE_DIR": S + "/out", "VERIF_REPLAY_DIR": S + "/out", "VERIF_CONFIGS": "primary"}
                        rc, o = sh([os.path.join(HERE, "check"), pid, "quick"], env=env, timeout=2400)
                        res["checks"][pid] = rc
                        if rc == 1:
                            res["outcome"] = "killed_by_check"
                            res["killed_by"] = pid
                            sig = [l.strip()[:200] for l in o.splitlines() if l.strip().startswith("[C")]
                            res["first_signature"] = sig[0] if sig else ""
                            break
                        if rc != 0:
                            # no verdict from this check (build failure, degenerate generator, harness
                            # panic): remember it and go on with the next anchored check
                            res["outcome"] = "infrastructure"
                            res["infra_tail"] = o[-600:]
            res["seconds"] = round(time.time() - t0, 1)
            with lock:
                with open(os.path.join(OUT, results_name), "a") as f:
                    f.write(json.dumps(res) + "\n")
                print("[w%d] %s %s:%d %s '%s'->'%s' => %s %s (%.0fs)" % (w, m["id"], m["file"], m["line"], m["op"], m["old"][:20], m["new"][:20], res["outcome"], res.get("killed_by", ""), res["seconds"]), flush=True)
    finally:
        subprocess.run(["git", "-C", REPO, "worktree", "remove", "--force", root], stdout=subprocess.DEVNULL, stderr=subprocess.DEVNULL)
        subprocess.run(["git", "-C", REPO, "worktree", "prune"])
        subprocess.run(["rm", "-rf", S])
        # build output of ./check for this scratch tree
        suffix = subprocess.run("printf '%s' " + root + " | cksum | cut -d' ' -f1", shell=True, stdout=subprocess.PIPE).stdout.decode().strip()
        for base in ("build", "target"):
            d = os.path.join(HERE, base)
            if os.path.isdir(d):
                for x in os.listdir(d):
                    if x.endswith("-" + suffix):
                        subprocess.run(["rm", "-rf", os.path.join(d, x)])


def main():
    cmd = sys.argv[1] if len(sys.argv) > 1 else "list"
    ms = all_mutants()
    if cmd == "list":
        by = {}
        for m in ms:
            by.setdefault((m["file"], m["op"]), 0)
            by[(m["file"], m["op"])] += 1
        files = sorted(set(f for f, _ in by))
        for f in files:
            print("%-55s %5d  %s" % (f, sum(v for (ff, _), v in by.items() if ff == f), " ".join("%s=%d" % (o, v) for (ff, o), v in sorted(by.items()) if ff == f)))
        print("total", len(ms))
    elif cmd == "run":
        n, seed = int(sys.argv[2]), int(sys.argv[3])
        workers = int(sys.argv[4]) if len(sys.argv) > 4 else 4
        os.makedirs(OUT, exist_ok=True)
        done = set()
        rp = os.path.join(OUT, "results.jsonl")
        if os.path.exists(rp):
            done = set(json.loads(l)["id"] for l in open(rp))
        rnd = random.Random(seed)
        pool = [m for m in ms if m["id"] not in done]
        rnd.shuffle(pool)
        queue = pool[:n]
        lock = threading.Lock()
        am = anchors()
        ts = [threading.Thread(target=worker, args=(w, queue, lock, am, done)) for w in range(workers)]
        for t in ts:
            t.start()
        for t in ts:
            t.join()
        print("SWEEP DONE")
    elif cmd == "run-suite-killed":
        # second pass: the mutants the repository's own suite already kills, run against the checks
        # anyway (are the checks strong on their own, or do they lean on the suite?)
        workers = int(sys.argv[2]) if len(sys.argv) > 2 else 4
        first = [json.loads(l) for l in open(os.path.join(OUT, "results.jsonl"))]
        ids = {r["id"] for r in first if r["outcome"] == "killed_by_existing_suite"}
        rp = os.path.join(OUT, "results_suite_killed.jsonl")
        done = set(json.loads(l)["id"] for l in open(rp)) if os.path.exists(rp) else set()
        queue = [m for m in ms if m["id"] in ids and m["id"] not in done]
        lock = threading.Lock()
        am = anchors()
        ts = [threading.Thread(target=worker, args=(w, queue, lock, am, done, "results_suite_killed.jsonl", True)) for w in range(workers)]
        for t in ts:
            t.start()
        for t in ts:
            t.join()
        print("SWEEP DONE")
    elif cmd == "report":
        report(ms)


def report(ms):
    rp = os.path.join(OUT, "results.jsonl")
    rs = [json.loads(l) for l in open(rp)]
    cur = {m["id"] for m in ms}
    by = {}
    for r in rs:
        by.setdefault(r["outcome"], []).append(r)
    notes = {}
    np_ = os.path.join(OUT, "survivors_classified.json")
    if os.path.exists(np_):
        notes = json.load(open(np_))
    L = []
    L.append("# Operator-level mutation sweep (tools/mutation_sweep.py)\n")
    L.append("Mutants in the pool (current tree): %d; executed: %d.\n" % (len(cur), len(rs)))
    L.append("| outcome | mutants |\n|---|---|")
    for k in ["does_not_compile", "killed_by_existing_suite", "killed_by_check", "survived", "infrastructure"]:
        L.append("| %s | %d |" % (k, len(by.get(k, []))))
    ours = len(by.get("killed_by_check", [])) + len(by.get("survived", []))
    if ours:
        L.append("\nOf the %d mutants that compile and pass the existing suite, the quick checks (primary configuration only, only the properties anchored in the mutated file) kill %d (%.1f %%).\n" % (ours, len(by.get("killed_by_check", [])), 100.0 * len(by.get("killed_by_check", [])) / ours))
    kb = {}
    for r in by.get("killed_by_check", []):
        kb[r["killed_by"]] = kb.get(r["killed_by"], 0) + 1
    L.append("First killing check: " + ", ".join("%s: %d" % (k, v) for k, v in sorted(kb.items())) + "\n")
    cls = {"equivalent": 0, "outside": 0, "other": 0}
    for r in by.get("survived", []):
        n = notes.get(r["id"], "")
        cls["equivalent" if n.startswith("equivalent") else "outside" if n.startswith("outside") else "other"] += 1
    L.append("Survivors by classification: %d equivalent mutants, %d outside every listed property, %d unexplained.\n" % (cls["equivalent"], cls["outside"], cls["other"]))
    L.append("## Survivors\n")
    L.append("| id | location | mutation | source line | classification |\n|---|---|---|---|---|")
    for r in sorted(by.get("survived", []), key=lambda r: (r["file"], r["line"])):
        L.append("| %s | %s:%d | %s `%s` -> `%s` | `%s` | %s |" % (r["id"], r["file"], r["line"], r["op"], r["old"][:40].replace("|", "\\|"), r["new"][:40].replace("|", "\\|"), r["text"][:90].replace("|", "\\|"), notes.get(r["id"], "(unclassified)")))
    if by.get("infrastructure"):
        L.append("\n## Infrastructure outcomes (exit 2: watchdog / build) - not verdicts\n")
        for r in by["infrastructure"]:
            L.append("* %s %s:%d %s `%s` -> `%s`: %s" % (r["id"], r["file"], r["line"], r["op"], r["old"][:30], r["new"][:30], notes.get(r["id"]) or (r.get("infra_tail") or "")[-160:].replace("\n", " ")))
    sp = os.path.join(OUT, "results_suite_killed.jsonl")
    if os.path.exists(sp):
        r2 = [json.loads(l) for l in open(sp)]
        c = {}
        for r in r2:
            c[r["outcome"]] = c.get(r["outcome"], 0) + 1
        L.append("\n## Second pass: the mutants the existing suite kills, run against the checks alone\n")
        L.append("(`run-suite-killed`: same procedure without the repository's suite.) %d mutants: %s.\n" % (len(r2), ", ".join("%s %d" % (k, v) for k, v in sorted(c.items()))))
        kb = {}
        for r in r2:
            if r["outcome"] == "killed_by_check":
                kb[r["killed_by"]] = kb.get(r["killed_by"], 0) + 1
        L.append("First killing check: " + ", ".join("%s: %d" % (k, v) for k, v in sorted(kb.items())) + "\n")
        for r in r2:
            if r["outcome"] != "killed_by_check":
                L.append("* %s %s %s:%d %s `%s` -> `%s` (`%s`): %s" % (r["outcome"], r["id"], r["file"], r["line"], r["op"], r["old"][:30], r["new"][:30], r["text"][:70], notes.get(r["id"], "(unclassified)")))
    open(os.path.join(OUT, "MUTATION.md"), "w").write("\n".join(L) + "\n")
    print("\n".join(L[:12]))


if __name__ == "__main__":
    main()
