#![no_main]
use libfuzzer_sys::fuzz_target;

#[global_allocator]
static GLOBAL: vharness::engine::CountingAlloc = vharness::engine::CountingAlloc;

fuzz_target!(|data: &[u8]| {
    vharness::fuzzing::fuzz_entry("meta", data);
});
