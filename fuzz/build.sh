#!/usr/bin/env bash
# Builds the libFuzzer targets (cargo-fuzz, nightly) against $VERIF_REPO (default /repo).
set -u
HERE="$(cd "$(dirname "$(readlink -f "$0")")" && pwd)"
VERIF="$(dirname "$HERE")"
export CARGO_NET_OFFLINE=true
"$VERIF/check" --gen-fuzzlib || exit 2
if [ -f "$HERE/Cargo.lock.committed" ] && [ ! -f "$HERE/Cargo.lock" ]; then cp "$HERE/Cargo.lock.committed" "$HERE/Cargo.lock"; fi
cd "$VERIF" || exit 2
if ! RUSTFLAGS="--cfg helgoboss_midi_verif" cargo +nightly fuzz build --fuzz-dir "$HERE" >"$HERE/build.log" 2>&1; then
  echo "fuzz: build failed (infrastructure, not a verdict)" >&2
  grep -E "^error" -A6 "$HERE/build.log" | head -40 >&2
  exit 2
fi
exit 0
