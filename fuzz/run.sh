#!/usr/bin/env bash
# fuzz/run.sh <Cxx> : thorough-tier fuzz campaign(s) for a property (fixed number of runs, fresh
# corpus from committed seeds). Exit 0 no violation / 1 violation (VIOLATION line) / 2 infrastructure.
set -u
HERE="$(cd "$(dirname "$(readlink -f "$0")")" && pwd)"
VERIF="$(dirname "$HERE")"
ID="$1"
SEED="${VERIF_SEED:-0}"
RUNS="${VERIF_FUZZ_RUNS:-3000000}"
case "$ID" in
  C08) TARGETS="hist_cc14";;
  C10|C11) TARGETS="hist_nrpn";;
  C12) TARGETS="hist_grammar";;
  C13|C14) TARGETS="hist_polling";;
  C15|C16|C17) TARGETS="meta";;
  C19) TARGETS="serde_json";;
  *) exit 0;;
esac
export CARGO_NET_OFFLINE=true
"$HERE/build.sh" || exit 2
FINAL=0
for T in $TARGETS; do
  WORK="$HERE/work/$T"; rm -rf "$WORK"; mkdir -p "$WORK/corpus" "$WORK/artifacts"
  [ -d "$HERE/seeds/$T" ] && cp "$HERE/seeds/$T"/* "$WORK/corpus/" 2>/dev/null
  # a few deterministic pseudo-random inputs so that libFuzzer starts at full length
  python3 - "$WORK/corpus" "$SEED" <<'PY'
import sys, random
d, seed = sys.argv[1], int(sys.argv[2])
r = random.Random(seed)
for i in range(8):
    open("%s/rand_%d" % (d, i), "wb").write(bytes(r.randrange(256) for _ in range(r.choice([16, 64, 200, 600]))))
PY
  BIN="$HERE/target/x86_64-unknown-linux-gnu/release/$T"
  [ -x "$BIN" ] || { echo "fuzz: target binary $BIN missing" >&2; exit 2; }
  DICT=""; [ -f "$HERE/dict/$T.dict" ] && DICT="-dict=$HERE/dict/$T.dict"
  JOBS=4
  PER=$(( RUNS / JOBS ))
  LOGS=""
  for j in $(seq 1 $JOBS); do
    mkdir -p "$WORK/corpus$j"; cp "$WORK/corpus"/* "$WORK/corpus$j/" 2>/dev/null
    ( cd "$WORK" && timeout --signal=KILL 3000 "$BIN" "$WORK/corpus$j" -runs=$PER -seed=$(( SEED * 16 + j )) -max_len=2400 -len_control=0 $DICT -artifact_prefix="$WORK/artifacts/j${j}_" -print_final_stats=1 >"$WORK/log$j.txt" 2>&1 ) &
  done
  wait
  EXECS=$(grep -h "stat::number_of_executed_units" "$WORK"/log*.txt | awk '{s+=$2} END {print s+0}')
  CORPUS=$(ls "$WORK"/corpus[0-9]* 2>/dev/null | wc -l)
  NART=$(ls "$WORK/artifacts" 2>/dev/null | wc -l)
  echo "fuzz: target $T executed $EXECS inputs in $JOBS jobs, corpus files $CORPUS, artifacts $NART" >&2
  VIOL=0
  if [ "$NART" -gt 0 ]; then
    if [ "$T" = serde_json ]; then CFG=serde; else CFG=main; fi
    VBIN="$("$VERIF/check" --build "$CFG")" || { echo "fuzz: cannot build vcheck ($CFG) to decode the artifacts" >&2; exit 2; }
    [ -x "$VBIN" ] || { echo "fuzz: $VBIN missing" >&2; exit 2; }
    SEEN=""
    for a in "$WORK/artifacts"/*; do
      case "$a" in *crash*|*j[0-9]_*) ;; *) continue;; esac
      out="$(VERIF_DIR="$VERIF" "$VBIN" fuzz-artifact "$T" "$a" 2>&1)"; rc=$?
      line="$(echo "$out" | grep '^VIOLATION' | head -1)"
      if [ $rc -eq 1 ] && [ -n "$line" ]; then
        # one VIOLATION line per failure signature
        sig="$(echo "$out" | grep -E '^\s+\[C' | head -1 | sed -E 's/ ::.*//')"
        case "$SEEN" in *"|$sig|"*) rm -f "$(echo "$line" | sed 's/.*replay=//')";; *) echo "$out" | grep -E '^\s+\[C' >&2; echo "$line"; SEEN="$SEEN|$sig|"; VIOL=$((VIOL+1));; esac
        FINAL=1
      fi
    done
  fi
  if [ "$EXECS" -eq 0 ] && [ "$NART" -eq 0 ]; then echo "fuzz: no executions recorded for $T (infrastructure)" >&2; exit 2; fi
  # merge the campaign into the evidence file written by vcheck
  python3 - "${VERIF_EVIDENCE_DIR:-$VERIF/evidence}/$ID.json" "$T" "$EXECS" "$CORPUS" "$NART" "$VIOL" "$WORK" <<'PY'
import json, sys, glob, os
path, target, execs, corpus, nart, viol, work = sys.argv[1:8]
try:
    e = json.load(open(path))
except Exception:
    sys.exit(0)
cov = e.setdefault("coverage", {})
samples = []
for f in sorted(glob.glob(work + "/corpus1/*"))[:3]:
    samples.append({"corpus_file": os.path.basename(f), "hex": open(f, "rb").read()[:48].hex()})
cov.setdefault("fuzz_campaigns", []).append({"engine": "libFuzzer (cargo-fuzz)", "target": target, "executions": int(execs), "corpus_files": int(corpus), "crash_artifacts": int(nart), "violations": int(viol), "corpus_samples": samples})
cov["evaluations"] = cov.get("evaluations", 0) + int(execs)
e["violations"] = e.get("violations", 0) + int(viol)
json.dump(e, open(path, "w"), indent=1)
PY
  rm -rf "$WORK"
done
exit $FINAL
